(* Proofs for C06: multi-entry containers list every entry, in order. *)
From WI Require Import Lib.Base Lib.Info Lib.Strings Lib.Time Model.Containers.
From WI Require Model.Base64 Model.Pem Model.Routes Proofs.Base64 Proofs.Pem.
From Coq Require Import ZifyN ZifyNat ZifyBool.
Open Scope N_scope.

(* ====================================================================== *)
(* Part A.  White space, comments, line splitting                          *)

(* characters a blank line may consist of (no LF; CR is allowed: stray CRs, CRLF files) *)
Definition blank_char (c : N) : bool := (c =? 9) || (c =? 11) || (c =? 12) || (c =? 32).
Definition blank_ok (w : bytes) : bool := forallb (fun c => blank_char c || (c =? 13)) w.
Definition no_lf (l : bytes) : bool := forallb (fun c => negb (c =? 10)) l.
(* a visible ASCII character other than '#' *)
Definition graphic (x : N) : bool := (33 <=? x) && (x <? 127).
(* an entry line: starts with a visible character that is not '#', has no LF and no CR *)
Definition entry_ok (l : bytes) : bool :=
  match l with
  | x :: _ => graphic x && negb (x =? 35)
  | [] => false
  end && forallb (fun c => negb (c =? 10) && negb (c =? 13)) l.
Definition item_ok (it : item) : bool :=
  match it with
  | IEntry l => entry_ok l
  | IBlank w => blank_ok w
  | IComment w t => forallb blank_char w && no_lf t
  end.
Definition layout_ok (its : list item) : bool := forallb item_ok its.

Lemma blank_char_sp1 : forall c, blank_char c = true -> is_sp1 c = true.
Proof. intros c. unfold blank_char, is_sp1. lia. Qed.

Lemma trim_left_all_sp : forall l, forallb is_sp1 l = true -> trim_left_sp l = [].
Proof.
  induction l as [|a l IH]; cbn [forallb trim_left_sp]; [reflexivity|].
  intros H. apply andb_prop in H as [Ha Hl]. rewrite Ha. auto.
Qed.

(* trim_space is written with the linear-time reversal; for reasoning, the specification-style rev *)
Lemma trim_space_rev : forall l, trim_space l = rev (trim_left_rev (rev (trim_left_sp l))).
Proof. intros l. unfold trim_space, rev'. now rewrite <- !rev_alt. Qed.

Lemma trim_space_all_sp : forall l, forallb is_sp1 l = true -> trim_space l = [].
Proof. intros l H. rewrite trim_space_rev. now rewrite trim_left_all_sp. Qed.

Lemma cut_blank : forall w, blank_ok w = true -> forallb is_sp1 (cut_at 13 w) = true.
Proof.
  induction w as [|c w IH]; cbn [blank_ok forallb cut_at]; [reflexivity|].
  intros H. apply andb_prop in H as [Hc Hw].
  destruct (c =? 13) eqn:E; [reflexivity|].
  cbn [forallb]. rewrite IH by exact Hw. rewrite orb_false_r in Hc.
  now rewrite (blank_char_sp1 _ Hc).
Qed.

Lemma blank_ok_app_cr : forall w, blank_ok w = true -> blank_ok (w ++ [13]) = true.
Proof.
  intros w H. unfold blank_ok in *. rewrite forallb_app, H. reflexivity.
Qed.

Lemma skip_blank : forall w, blank_ok w = true -> ssh_skip w = true.
Proof.
  intros w H. unfold ssh_skip. now rewrite trim_space_all_sp by (now apply cut_blank).
Qed.

(* a visible first byte survives trimming on both sides *)
Lemma graphic_not_sp : forall x, graphic x = true ->
  is_sp1 x = false /\ (forall b, is_sp2 x b = false) /\ (forall b c, is_sp3 x b c = false)
  /\ (forall c, is_sp2 x c = false) /\ (forall a c, is_sp3 a x c = false) /\ (forall a b, is_sp3 a b x = false)
  /\ (forall b, is_sp2 b x = false).
Proof.
  intros x H. unfold graphic in H. unfold is_sp1, is_sp2, is_sp3. repeat split; intros; lia.
Qed.

Lemma trim_left_keeps : forall x t, graphic x = true -> trim_left_sp (x :: t) = x :: t.
Proof.
  intros x t H. destruct (graphic_not_sp x H) as (H1 & H2 & H3 & _).
  cbn [trim_left_sp]. rewrite H1.
  destruct t as [|b [|c r]]; [reflexivity| |]; rewrite H2; [reflexivity|]. now rewrite H3.
Qed.

Lemma trim_rev_keeps_n : forall x, graphic x = true -> forall n u, (length u <= n)%nat ->
  exists s, trim_left_rev (u ++ [x]) = s ++ [x].
Proof.
  intros x H. destruct (graphic_not_sp x H) as (H1 & H2 & H3 & _).
  induction n as [|n IH]; intros u Hn.
  - destruct u; [|cbn in Hn; lia]. exists []. cbn [app trim_left_rev]. now rewrite H1.
  - destruct u as [|c r1].
    + exists []. cbn [app trim_left_rev]. now rewrite H1.
    + cbn [app trim_left_rev]. cbn [length] in Hn.
      destruct (is_sp1 c); [apply IH; lia|].
      destruct r1 as [|b r2]; cbn [app].
      * rewrite H2. exists [c]. reflexivity.
      * cbn [length] in Hn. destruct (is_sp2 b c); [apply IH; lia|].
        destruct r2 as [|a r3]; cbn [app].
        -- rewrite H3. exists [c; b]. reflexivity.
        -- cbn [length] in Hn. destruct (is_sp3 a b c); [apply IH; lia|].
           exists (c :: b :: a :: r3). reflexivity.
Qed.

Lemma trim_space_head : forall x t, graphic x = true -> exists t', trim_space (x :: t) = x :: t'.
Proof.
  intros x t H. rewrite trim_space_rev. rewrite trim_left_keeps by exact H.
  cbn [rev]. destruct (trim_rev_keeps_n x H (length (rev t)) (rev t) (le_n _)) as [s Hs].
  rewrite Hs, rev_app_distr. cbn [rev app]. eauto.
Qed.

Lemma cut_at_app_stop : forall w x t, forallb blank_char w = true ->
  cut_at 13 (w ++ x :: t) = w ++ cut_at 13 (x :: t).
Proof.
  induction w as [|c w IH]; intros x t H; [reflexivity|].
  cbn [forallb] in H. apply andb_prop in H as [Hc Hw].
  cbn [app cut_at]. assert (c =? 13 = false) as -> by (unfold blank_char in Hc; lia).
  now rewrite IH.
Qed.

Lemma trim_left_skip_ws : forall w l, forallb blank_char w = true -> trim_left_sp (w ++ l) = trim_left_sp l.
Proof.
  induction w as [|c w IH]; intros l H; [reflexivity|].
  cbn [forallb] in H. apply andb_prop in H as [Hc Hw].
  cbn [app trim_left_sp]. rewrite (blank_char_sp1 _ Hc). now apply IH.
Qed.

Lemma skip_comment : forall w t, forallb blank_char w = true -> ssh_skip (w ++ 35 :: t) = true.
Proof.
  intros w t Hw. unfold ssh_skip. rewrite cut_at_app_stop by exact Hw.
  cbn [cut_at]. change (35 =? 13) with false. cbv iota.
  rewrite trim_space_rev. rewrite trim_left_skip_ws by exact Hw.
  rewrite <- trim_space_rev.
  destruct (trim_space_head 35 (cut_at 13 t) eq_refl) as [t' ->]. reflexivity.
Qed.

Lemma cut_at_none : forall l, forallb (fun c => negb (c =? 10) && negb (c =? 13)) l = true ->
  cut_at 13 l = l /\ cut_at 13 (l ++ [13]) = l.
Proof.
  induction l as [|c l IH]; cbn [forallb app cut_at]; intros H.
  - split; reflexivity.
  - apply andb_prop in H as [Hc Hl]. assert (c =? 13 = false) as -> by lia.
    destruct (IH Hl) as [-> ->]. split; reflexivity.
Qed.

Lemma skip_entry : forall e, entry_ok e = true -> ssh_skip e = false /\ ssh_skip (e ++ [13]) = false.
Proof.
  intros e H. unfold entry_ok in H. apply andb_prop in H as [Hh Hall].
  destruct (cut_at_none e Hall) as [C1 C2]. unfold ssh_skip. rewrite C1, C2.
  destruct e as [|x t]; [discriminate|]. apply andb_prop in Hh as [Hg Hx].
  destruct (trim_space_head x t Hg) as [t' ->]. split; lia.
Qed.

(* --- bytes.Split on LF --- *)
Lemma split_lf_nonempty : forall l, exists h t, split_lf l = h :: t.
Proof.
  induction l as [|c l [h [t IH]]]; cbn [split_lf]; [eauto|].
  rewrite IH. destruct (c =? 10); eauto.
Qed.

Lemma split_lf_line : forall l rest, no_lf l = true -> split_lf (l ++ 10 :: rest) = l :: split_lf rest.
Proof.
  induction l as [|c l IH]; intros rest H; cbn [app split_lf].
  - destruct (split_lf_nonempty rest) as [h [t ->]]. reflexivity.
  - cbn [no_lf forallb] in H. apply andb_prop in H as [Hc Hl]. rewrite (IH rest Hl).
    assert (c =? 10 = false) as -> by lia. reflexivity.
Qed.

Lemma split_lf_last : forall l, no_lf l = true -> split_lf l = [l].
Proof.
  induction l as [|c l IH]; intros H; cbn [split_lf]; [reflexivity|].
  cbn [no_lf forallb] in H. apply andb_prop in H as [Hc Hl]. rewrite (IH Hl).
  assert (c =? 10 = false) as -> by lia. reflexivity.
Qed.

(* ====================================================================== *)
(* Part B.  SSH files: every layout                                        *)

Definition cr (le : line_ending) : bytes := match le with LF => [] | CRLF => [13] end.

Lemma no_lf_app_cr : forall l le, no_lf l = true -> no_lf (l ++ cr le) = true.
Proof. intros l le H. unfold no_lf in *. rewrite forallb_app, H. now destruct le. Qed.

Lemma split_step : forall l le rest, no_lf l = true ->
  split_lf (l ++ le_bytes le ++ rest) = (l ++ cr le) :: split_lf rest.
Proof.
  intros l le rest H. pose proof (split_lf_line (l ++ cr le) rest (no_lf_app_cr l le H)) as E.
  transitivity (split_lf ((l ++ cr le) ++ 10 :: rest)); [|exact E]. f_equal. destruct le; cbn [le_bytes cr app]; rewrite <- app_assoc; reflexivity.
Qed.

Lemma item_no_lf : forall it, item_ok it = true -> no_lf (item_line it) = true.
Proof.
  intros [l|w|w t]; cbn [item_ok item_line]; intros H.
  - unfold entry_ok in H. apply andb_prop in H as [_ H]. unfold no_lf.
    rewrite forallb_forall in *. intros c Hc. specialize (H c Hc). lia.
  - unfold blank_ok in H. unfold no_lf. rewrite forallb_forall in *. intros c Hc. specialize (H c Hc).
    unfold blank_char in H. lia.
  - apply andb_prop in H as [Hw Ht]. unfold no_lf in *. rewrite forallb_app. cbn [forallb].
    rewrite Ht, andb_true_r. rewrite forallb_forall in *. intros c Hc. specialize (Hw c Hc).
    unfold blank_char in Hw. lia.
Qed.

(* the attributes the library reports for a line (meaningful where it answers Ok) *)
Definition lib_attrs (lib : bytes -> result attrs) (e : bytes) : attrs :=
  match lib e with Ok a => a | _ => [] end.
Definition ssh_child (lib : bytes -> result attrs) (e : bytes) : info := Info ssh_key_desc (lib_attrs lib e) [].

Section SshLayout.
  Variable lib : bytes -> result attrs.
  (* the library accepts the line, and a CR at its end makes no difference (it cuts at CR) *)
  Definition lib_accepts (e : bytes) : Prop := exists a, lib e = Ok a /\ lib (e ++ [13]) = Ok a.

  (* one written line, with or without the CR of a CRLF ending *)
  Lemma line_step : forall it le rest, item_ok it = true ->
    (forall e, it = IEntry e -> lib_accepts e) ->
    ssh_lines ssh_skip lib ((item_line it ++ cr le) :: rest) =
      match ssh_lines ssh_skip lib rest with
      | Ok k => Ok (map (ssh_child lib) (entries_of [it]) ++ k)
      | Err e => Err e
      | Panic e => Panic e
      end.
  Proof.
    intros it le rest Hok Hlib. cbn [ssh_lines].
    destruct it as [l|w|w t]; cbn [item_ok item_line entries_of map app] in *.
    - destruct (skip_entry l Hok) as [S1 S2].
      destruct (Hlib l eq_refl) as [a [L1 L2]].
      assert (ssh_skip (l ++ cr le) = false /\ lib (l ++ cr le) = Ok a) as [-> ->].
      { destruct le; cbn [cr]; [rewrite app_nil_r|]; auto. }
      unfold ssh_child, lib_attrs. rewrite L1. reflexivity.
    - assert (ssh_skip (w ++ cr le) = true) as ->.
      { destruct le; cbn [cr]; [rewrite app_nil_r; now apply skip_blank|].
        apply skip_blank. now apply blank_ok_app_cr. }
      destruct (ssh_lines ssh_skip lib rest); reflexivity.
    - apply andb_prop in Hok as [Hw Ht].
      assert (ssh_skip ((w ++ 35 :: t) ++ cr le) = true) as ->.
      { rewrite <- app_assoc. cbn [app]. now apply skip_comment. }
      destruct (ssh_lines ssh_skip lib rest); reflexivity.
  Qed.

  (* the line endings after the last line add nothing *)
  Lemma tail_lines : forall le k,
    ssh_lines ssh_skip lib (split_lf (concat (repeat (le_bytes le) k))) = Ok [].
  Proof.
    intros le. induction k as [|k IH]; cbn [repeat concat].
    - reflexivity.
    - change (le_bytes le ++ concat (repeat (le_bytes le) k))
        with ([] ++ le_bytes le ++ concat (repeat (le_bytes le) k)).
      rewrite split_step by reflexivity. cbn [app ssh_lines].
      assert (ssh_skip (cr le) = true) as -> by (destruct le; reflexivity).
      exact IH.
  Qed.

  Lemma ssh_layout_lines : forall its le trail,
    layout_ok its = true ->
    (forall e, In e (entries_of its) -> lib_accepts e) ->
    ssh_lines ssh_skip lib (split_lf (render its le trail)) = Ok (map (ssh_child lib) (entries_of its)).
  Proof.
    induction its as [|it its IH]; intros le trail Hok Hlib.
    - reflexivity.
    - cbn [layout_ok forallb] in Hok. apply andb_prop in Hok as [Hit Hits].
      assert (Hl : forall e, it = IEntry e -> lib_accepts e).
      { intros e ->. apply Hlib. now left. }
      assert (Hr : forall e, In e (entries_of its) -> lib_accepts e).
      { intros e He. apply Hlib. destruct it; cbn [entries_of]; auto. now right. }
      assert (Hent : entries_of (it :: its) = entries_of [it] ++ entries_of its).
      { destruct it; reflexivity. }
      unfold render. cbn [map render_lines]. destruct its as [|it2 its'].
      + (* the last line *)
        cbn [map]. destruct trail as [|k].
        * cbn [repeat concat]. rewrite app_nil_r.
          rewrite split_lf_last by (now apply item_no_lf).
          rewrite <- (app_nil_r (item_line it)) at 1. change [] with (cr LF) at 1.
          rewrite line_step by assumption. cbn [ssh_lines]. rewrite app_nil_r.
          rewrite Hent. cbn [entries_of]. now rewrite app_nil_r.
        * cbn [repeat concat]. rewrite split_step by (now apply item_no_lf).
          rewrite line_step by assumption. rewrite tail_lines. rewrite app_nil_r.
          rewrite Hent. cbn [entries_of]. now rewrite app_nil_r.
      + cbn [map]. rewrite split_step by (now apply item_no_lf).
        rewrite line_step by assumption.
        change (render_lines (item_line it2 :: map item_line its') le trail) with (render (it2 :: its') le trail).
        rewrite (IH le trail Hits Hr). rewrite Hent, map_app. reflexivity.
  Qed.

  Lemma ssh_layout_file : forall desc its le trail,
    layout_ok its = true ->
    (forall e, In e (entries_of its) -> lib_accepts e) ->
    ssh_file ssh_skip lib desc (render its le trail) = Ok (Info desc [] (map (ssh_child lib) (entries_of its))).
  Proof.
    intros. unfold ssh_file. now rewrite ssh_layout_lines.
  Qed.
End SshLayout.

(* a line the library rejects fails the whole file: nothing is listed partially *)
Lemma ssh_bad_line : forall skip lib ls l,
  In l ls -> skip l = false -> (exists e, lib l = Err e) ->
  (forall l', In l' ls -> is_panic (lib l') = false) ->
  exists e, ssh_lines skip lib ls = Err e.
Proof.
  induction ls as [|x ls IH]; intros l Hin Hs [e He] Hnp; [destruct Hin|].
  cbn [ssh_lines]. destruct Hin as [->|Hin].
  - rewrite Hs, He. eauto.
  - assert (Hrec : exists e', ssh_lines skip lib ls = Err e').
    { apply (IH l); eauto. intros l' Hl'. apply Hnp. now right. }
    destruct Hrec as [e' He']. destruct (skip x); [eauto|].
    pose proof (Hnp x (or_introl eq_refl)) as Hx.
    destruct (lib x); cbn in Hx; [rewrite He'|..]; eauto. discriminate.
Qed.

(* the pre-repair code on a concrete file: a stand-in library that, like x/crypto/ssh,
   rejects blank and comment chunks and ignores a CR and what follows *)
Definition toy_lib (l : bytes) : result attrs :=
  if ssh_skip l then Err "ssh: no key found" else Ok [(bs "Key", cut_at 13 l)].
Definition toy_k1 : bytes := bs "ssh-ed25519 AAAAC3NzaC1lZDI1NTE5 one".
Definition toy_k2 : bytes := bs "ssh-rsa AAAAB3NzaC1yc2E two".

(* ====================================================================== *)
(* Part C.  PEM bundles                                                    *)

Lemma prefix_of_app : forall p t, prefix_of p (p ++ t) = true.
Proof. induction p as [|x p IH]; intros t; cbn [app prefix_of]; [reflexivity|]. now rewrite N.eqb_refl, IH. Qed.

Lemma prefix_of_split : forall p l, prefix_of p l = true -> exists t, l = p ++ t.
Proof.
  induction p as [|x p IH]; intros l H; [now exists l|].
  destruct l as [|y l]; [discriminate|]. cbn [prefix_of] in H. apply andb_prop in H as [Hx Hp].
  apply N.eqb_eq in Hx. subst y. destruct (IH l Hp) as [t ->]. now exists t.
Qed.

(* p is a prefix of l ++ t and no longer than l: it is a prefix of l *)
Lemma prefix_of_app_short : forall p l t, (length p <= length l)%nat ->
  prefix_of p (l ++ t) = prefix_of p l.
Proof.
  induction p as [|x p IH]; intros l t H; [reflexivity|].
  destruct l as [|y l]; [cbn in H; lia|]. cbn [app prefix_of]. rewrite IH by (cbn in H; lia). reflexivity.
Qed.

Lemma index_from_shift : forall sep l k, index_from (S k) sep l = option_map S (index_from k sep l).
Proof.
  induction l as [|x l IH]; intros k; cbn [index_from].
  - destruct (prefix_of sep []); reflexivity.
  - destruct (prefix_of sep (x :: l)); [reflexivity|apply IH].
Qed.

(* text that does not bring a "-----BEGIN " of its own, even together with the start of the
   block that follows: the first occurrence in j ++ "-----BEGIN " is at the end of j *)
Definition junk_ok (j : bytes) : bool :=
  match index_of pem_begin (j ++ pem_begin) with
  | Some k => Nat.eqb k (length j)
  | None => false
  end.
Definition junk_end (j : bytes) : bool :=
  match index_of pem_begin j with Some _ => false | None => true end.

Lemma index_from_here : forall p l k, prefix_of p l = true -> index_from k p l = Some k.
Proof. intros p l k H. destruct l; cbn [index_from]; rewrite H; reflexivity. Qed.

Lemma index_junk : forall p j t, index_of p (j ++ p) = Some (length j) -> index_of p (j ++ p ++ t) = Some (length j).
Proof.
  intros p. unfold index_of. induction j as [|x j IH]; intros t H.
  - cbn [app length]. apply index_from_here, prefix_of_app.
  - cbn [app length] in *. cbn [index_from] in *.
    destruct (prefix_of p (x :: j ++ p)) eqn:E; [discriminate|].
    assert (Hp : prefix_of p (x :: j ++ p ++ t) = false).
    { replace (x :: j ++ p ++ t) with ((x :: j ++ p) ++ t) by (cbn [app]; now rewrite <- app_assoc).
      rewrite prefix_of_app_short; [exact E|]. cbn [length]. rewrite app_length. lia. }
    rewrite Hp. rewrite index_from_shift in *.
    destruct (index_from 0 p (j ++ p)) as [n|] eqn:Ek; [|discriminate].
    cbn [option_map] in H. injection H as H. subst n.
    rewrite (IH t eq_refl). reflexivity.
Qed.

Lemma drop_app_length : forall (A : Type) (a b : list A), drop (length a) (a ++ b) = b.
Proof. induction a as [|x a IH]; intros b; [reflexivity|apply IH]. Qed.
Lemma take_app_length : forall (A : Type) (a b : list A), take (length a) (a ++ b) = a.
Proof. induction a as [|x a IH]; intros b; [reflexivity|]. cbn [length app take]. now rewrite IH. Qed.

Lemma skip_junk : forall j x, junk_ok j = true -> prefix_of pem_begin x = true -> skip_to_pem (j ++ x) = x.
Proof.
  intros j x Hj Hx. destruct (prefix_of_split _ _ Hx) as [t ->].
  unfold junk_ok in Hj. destruct (index_of pem_begin (j ++ pem_begin)) as [k|] eqn:E; [|discriminate].
  apply Nat.eqb_eq in Hj. subst k.
  unfold skip_to_pem. rewrite (index_junk _ _ t E). apply drop_app_length.
Qed.

Lemma skip_end : forall j, junk_end j = true -> skip_to_pem j = [].
Proof.
  intros j H. unfold junk_end in H. unfold skip_to_pem. destruct (index_of pem_begin j); [discriminate|reflexivity].
Qed.

Section PemBundle.
  Variable enc : pblock -> bytes.                      (* the armor of a block, with its line endings *)
  Variable dec : bytes -> option (pblock * bytes).     (* pem.Decode *)
  Variable describe : pblock -> result info.           (* parsePEMBlock *)
  Variable d : pblock -> info.
  (* what is assumed of encoding/pem (sampled by the correspondence check on every case):
     an armored block starts with the BEGIN marker and pem.Decode returns it and what follows it *)
  Hypothesis enc_begin : forall b, prefix_of pem_begin (enc b) = true.
  Hypothesis dec_enc : forall b rest, dec (enc b ++ rest) = Some (b, rest).

  (* a bundle: text, block, text, block, ..., text *)
  Fixpoint pem_render (items : list (bytes * pblock)) (tail : bytes) : bytes :=
    match items with
    | [] => tail
    | (j, b) :: r => j ++ enc b ++ pem_render r tail
    end.
  Definition bundle_ok (items : list (bytes * pblock)) (tail : bytes) : bool :=
    forallb (fun jb => junk_ok (fst jb)) items && junk_end tail.
  Definition listed (items : list (bytes * pblock)) : list pblock :=
    filter (fun b => negb (is_pgp_type (pb_type b))) (map snd items).

  Lemma enc_nonempty : forall b rest, exists x r, enc b ++ rest = x :: r.
  Proof.
    intros b rest. destruct (prefix_of_split _ _ (enc_begin b)) as [t ->].
    unfold pem_begin. cbn. eauto.
  Qed.

  Lemma skip_render : forall items tail, bundle_ok items tail = true ->
    skip_to_pem (pem_render items tail) =
      match items with
      | [] => []
      | (j, b) :: r => enc b ++ pem_render r tail
      end.
  Proof.
    intros items tail H. unfold bundle_ok in H. apply andb_prop in H as [Hi Ht].
    destruct items as [|[j b] r]; cbn [pem_render].
    - now apply skip_end.
    - cbn [forallb fst] in Hi. apply andb_prop in Hi as [Hj _].
      apply skip_junk; [exact Hj|].
      destruct (prefix_of_split _ _ (enc_begin b)) as [t ->]. rewrite <- app_assoc. apply prefix_of_app.
  Qed.

  Lemma pem_loop_bundle : forall items tail fuel,
    bundle_ok items tail = true -> (length items < fuel)%nat ->
    (forall b, In b (listed items) -> describe b = Ok (d b)) ->
    pem_loop dec describe fuel (skip_to_pem (pem_render items tail)) = Ok (map d (listed items)).
  Proof.
    induction items as [|[j b] r IH]; intros tail fuel Hok Hf Hd.
    - rewrite skip_render by exact Hok. destruct fuel; reflexivity.
    - rewrite skip_render by exact Hok.
      destruct fuel as [|f]; [cbn in Hf; lia|].
      destruct (enc_nonempty b (pem_render r tail)) as [x [rr E]].
      cbn [pem_loop]. rewrite E. rewrite <- E. rewrite dec_enc.
      assert (Hok' : bundle_ok r tail = true).
      { unfold bundle_ok in *. cbn [forallb] in Hok. apply andb_prop in Hok as [Hi Ht].
        apply andb_prop in Hi as [_ Hi]. now rewrite Hi, Ht. }
      unfold listed in *. cbn [map snd filter] in *.
      destruct (is_pgp_type (pb_type b)) eqn:Ep; cbn [negb] in *.
      + apply IH; [exact Hok'|cbn in Hf; lia|exact Hd].
      + rewrite (Hd b (or_introl eq_refl)).
        rewrite IH; [reflexivity|exact Hok'|cbn in Hf; lia|].
        intros b' Hb'. apply Hd. now right.
  Qed.

  Lemma render_length : forall items tail, (length items <= length (pem_render items tail))%nat.
  Proof.
    induction items as [|[j b] r IH]; intros tail; cbn [length pem_render]; [lia|].
    destruct (enc_nonempty b []) as [x [rr E]]. rewrite app_nil_r in E.
    rewrite !app_length, E. cbn [length]. specialize (IH tail). lia.
  Qed.

  (* PEMFile on every bundle *)
  Lemma pem_file_bundle : forall items tail,
    bundle_ok items tail = true ->
    (forall b, In b (listed items) -> describe b = Ok (d b)) ->
    pem_file dec describe (pem_render items tail) =
      match map d (listed items) with
      | [] => Err "no valid PEM blocks"
      | [i] => Ok i
      | k => Ok (Info (bs "multiple PEM blocks") [] k)
      end.
  Proof.
    intros items tail Hok Hd. unfold pem_file.
    rewrite (pem_loop_bundle items tail _ Hok); [destruct (map d (listed items)) as [|? [|? ?]]; reflexivity| |exact Hd].
    pose proof (render_length items tail). lia.
  Qed.
End PemBundle.

(* ====================================================================== *)
(* Part D.  Keystores: the stream codec round trip                         *)

Lemma be_acc_app : forall l1 l2 acc, be_to_N_acc acc (l1 ++ l2) = be_to_N_acc (be_to_N_acc acc l1) l2.
Proof. induction l1 as [|x l1 IH]; intros l2 acc; cbn [app be_to_N_acc]; [reflexivity|apply IH]. Qed.

Lemma N_to_be_length : forall w n, length (N_to_be w n) = w.
Proof.
  induction w as [|w IH]; intros n; cbn [N_to_be]; [reflexivity|].
  rewrite app_length, IH. cbn [length]. lia.
Qed.

Lemma be_N_to_be_mod : forall w n, be_to_N (N_to_be w n) = n mod 256 ^ N.of_nat w.
Proof.
  unfold be_to_N. induction w as [|w IH]; intros n.
  - cbn [N_to_be be_to_N_acc]. change (256 ^ N.of_nat 0) with 1. now rewrite N.mod_1_r.
  - cbn [N_to_be]. rewrite be_acc_app, IH. cbn [be_to_N_acc].
    rewrite Nat2N.inj_succ, N.pow_succ_r'.
    rewrite (N.mod_mul_r n 256 (256 ^ N.of_nat w)); [lia|lia|].
    apply N.pow_nonzero. lia.
Qed.

Lemma be_N_to_be : forall w n, n < 256 ^ N.of_nat w -> be_to_N (N_to_be w n) = n.
Proof. intros w n H. rewrite be_N_to_be_mod. now apply N.mod_small. Qed.

Lemma read_n_app : forall a rest off,
  read_n (N.of_nat (length a)) (a ++ rest, off) = Ok (a, (rest, off + N.of_nat (length a))).
Proof.
  intros a rest off. unfold read_n. cbn [fst snd].
  assert (N.of_nat (length (a ++ rest)) <? N.of_nat (length a) = false) as ->.
  { rewrite app_length. lia. }
  rewrite Nat2N.id, take_app_length, drop_app_length. reflexivity.
Qed.

Lemma read_u_enc : forall w n rest off, n < 256 ^ N.of_nat w ->
  read_u (N.of_nat w) (N_to_be w n ++ rest, off) = Ok (n, (rest, off + N.of_nat w)).
Proof.
  intros w n rest off H. unfold read_u.
  rewrite <- (N_to_be_length w n) at 1. rewrite read_n_app, N_to_be_length.
  now rewrite be_N_to_be.
Qed.

Lemma read_u2 : forall n rest off, n < 65536 -> read_u 2 (N_to_be 2 n ++ rest, off) = Ok (n, (rest, off + 2)).
Proof. intros. now apply (read_u_enc 2). Qed.
Lemma read_u4 : forall n rest off, n < 4294967296 -> read_u 4 (N_to_be 4 n ++ rest, off) = Ok (n, (rest, off + 4)).
Proof. intros. now apply (read_u_enc 4). Qed.
Lemma read_u8 : forall n rest off, n < 18446744073709551616 -> read_u 8 (N_to_be 8 n ++ rest, off) = Ok (n, (rest, off + 8)).
Proof. intros. now apply (read_u_enc 8). Qed.

Lemma read_string_enc : forall s rest off, N.of_nat (length s) < 65536 ->
  exists off', read_string (enc_string s ++ rest, off) = Ok (s, (rest, off')).
Proof.
  intros s rest off H. unfold read_string, enc_string. rewrite <- app_assoc.
  rewrite read_u2 by exact H. rewrite read_n_app. eauto.
Qed.

Definition is_nil {A} (l : list A) : bool := match l with [] => true | _ => false end.
Lemma is_nil_true : forall A (l : list A), is_nil l = true -> l = [].
Proof. intros A [|x l]; [reflexivity|discriminate]. Qed.

Definition cert_ok (c : jcert) : bool :=
  (N.of_nat (length (jc_type c)) <? 65536) && (N.of_nat (length (jc_bytes c)) <? 4294967296).

(* what the stream format can represent, per entry type *)
Definition jentry_ok (e : jentry) : bool :=
  (je_type e <? 4294967296) && (N.of_nat (length (je_alias e)) <? 65536) && (je_date e <? 18446744073709551616) &&
  (if je_type e =? 1 then
     (N.of_nat (length (je_key e)) <? 4294967296) && (N.of_nat (length (je_certs e)) <? 4294967296)
     && forallb cert_ok (je_certs e) && is_nil (je_seal e)
   else if je_type e =? 2 then
     is_nil (je_key e) && is_nil (je_seal e) && match je_certs e with [c] => cert_ok c | _ => false end
   else if je_type e =? 3 then is_nil (je_certs e)
   else is_nil (je_key e) && is_nil (je_seal e) && is_nil (je_certs e)).

Section JksCodec.
  Variable secret : N -> bytes -> result (N * bytes * bytes).

  (* the sealed-object reader gives back what the blob stands for and consumes exactly the blob *)
  Definition secret_ok (eb : jentry * bytes) : Prop :=
    je_type (fst eb) = 3 -> forall off rest,
      secret off (snd eb ++ rest) = Ok (N.of_nat (length (snd eb)), je_seal (fst eb), je_key (fst eb)).

  Lemma read_certs_enc : forall cs fuel rest off,
    forallb cert_ok cs = true -> (length cs <= fuel)%nat ->
    exists off', read_certs fuel (N.of_nat (length cs)) (concat (map enc_cert cs) ++ rest, off) = Ok (cs, (rest, off')).
  Proof.
    induction cs as [|c cs IH]; intros fuel rest off Hok Hf.
    - exists off. destruct fuel; reflexivity.
    - destruct fuel as [|f]; [cbn in Hf; lia|].
      cbn [forallb] in Hok. apply andb_prop in Hok as [Hc Hcs].
      unfold cert_ok in Hc. apply andb_prop in Hc as [Ht Hb].
      cbn [read_certs length map concat].
      assert (N.of_nat (S (length cs)) =? 0 = false) as -> by lia.
      unfold enc_cert at 1. rewrite <- !app_assoc.
      destruct (read_string_enc (jc_type c) (N_to_be 4 (N.of_nat (length (jc_bytes c))) ++ jc_bytes c ++ concat (map enc_cert cs) ++ rest) off) as [o1 ->]; [lia|].
      rewrite read_u4 by lia. rewrite read_n_app.
      replace (N.of_nat (S (length cs)) - 1) with (N.of_nat (length cs)) by lia.
      destruct (IH f rest (o1 + 4 + N.of_nat (length (jc_bytes c))) Hcs) as [o2 ->]; [cbn in Hf; lia|].
      exists o2. destruct c; reflexivity.
  Qed.

  Lemma certs_enc_length : forall cs, (length cs <= length (concat (map enc_cert cs)))%nat.
  Proof.
    induction cs as [|c cs IH]; cbn [map concat length]; [lia|].
    unfold enc_cert at 1. unfold enc_string. rewrite !app_length, N_to_be_length. lia.
  Qed.

  Lemma entry_certs_length : forall e blob rest, jentry_ok e = true ->
    (length (je_certs e) <= length (enc_entry (e, blob) ++ rest))%nat.
  Proof.
    intros e blob rest H. unfold jentry_ok in H. apply andb_prop in H as [_ H].
    unfold enc_entry. cbn [fst snd]. rewrite !app_length.
    destruct (je_type e =? 1) eqn:E1.
    - rewrite !app_length. pose proof (certs_enc_length (je_certs e)). lia.
    - destruct (je_type e =? 2) eqn:E2.
      + pose proof (certs_enc_length (je_certs e)). lia.
      + destruct (je_type e =? 3) eqn:E3.
        * apply is_nil_true in H. rewrite H. cbn [length]. lia.
        * apply andb_prop in H as [_ H]. apply is_nil_true in H. rewrite H. cbn [length]. lia.
  Qed.

  Lemma read_entry_enc : forall e blob fuel rest off,
    jentry_ok e = true -> secret_ok (e, blob) -> (length (je_certs e) <= fuel)%nat ->
    exists off', read_entry secret fuel (enc_entry (e, blob) ++ rest, off) = Ok (e, (rest, off')).
  Proof.
    intros e blob fuel rest off Hok Hsec Hf.
    unfold jentry_ok in Hok. apply andb_prop in Hok as [Hok Hbody].
    apply andb_prop in Hok as [Hok Hdate]. apply andb_prop in Hok as [Htype Halias].
    unfold read_entry, enc_entry. cbn [fst snd]. rewrite <- !app_assoc.
    rewrite read_u4 by lia.
    destruct (read_string_enc (je_alias e)
               (N_to_be 8 (je_date e) ++
                (if je_type e =? 1
                 then N_to_be 4 (N.of_nat (length (je_key e))) ++ je_key e ++
                      N_to_be 4 (N.of_nat (length (je_certs e))) ++ concat (map enc_cert (je_certs e))
                 else if je_type e =? 2 then concat (map enc_cert (je_certs e))
                 else if je_type e =? 3 then blob else []) ++ rest) (off + 4)) as [o1 ->]; [lia|].
    rewrite read_u8 by lia.
    destruct e as [t alias date key seal certs]. cbn [je_type je_alias je_date je_key je_seal je_certs] in *.
    destruct (t =? 1) eqn:E1.
    - apply N.eqb_eq in E1. subst t.
      apply andb_prop in Hbody as [Hbody Hseal]. apply andb_prop in Hbody as [Hbody Hcs].
      apply andb_prop in Hbody as [Hk Hn]. apply is_nil_true in Hseal. subst seal.
      rewrite <- !app_assoc. rewrite read_u4 by lia. rewrite read_n_app. rewrite read_u4 by lia.
      destruct (read_certs_enc certs fuel rest (o1 + 8 + 4 + N.of_nat (length key) + 4) Hcs Hf) as [o2 ->].
      eauto.
    - destruct (t =? 2) eqn:E2.
      + apply N.eqb_eq in E2. subst t.
        apply andb_prop in Hbody as [Hbody Hc]. apply andb_prop in Hbody as [Hk Hs].
        apply is_nil_true in Hk. apply is_nil_true in Hs. subst key seal.
        destruct certs as [|c [|c2 cs]]; try discriminate.
        assert (Hcs : forallb cert_ok [c] = true) by (cbn [forallb]; now rewrite Hc).
        destruct (read_certs_enc [c] fuel rest (o1 + 8) Hcs Hf) as [o2 H2].
        cbn [length] in H2. change (N.of_nat 1) with 1 in H2. rewrite H2. eauto.
      + destruct (t =? 3) eqn:E3.
        * apply N.eqb_eq in E3. subst t. apply is_nil_true in Hbody. subst certs.
          cbn [fst snd]. rewrite (Hsec eq_refl). cbn [fst snd].
          rewrite Nat2N.id, drop_app_length. eauto.
        * apply andb_prop in Hbody as [Hbody Hc]. apply andb_prop in Hbody as [Hk Hs].
          apply is_nil_true in Hk. apply is_nil_true in Hs. apply is_nil_true in Hc. subst key seal certs.
          cbn [app]. eauto.
  Qed.

  Lemma read_entries_enc : forall ebs fuel rest off,
    forallb (fun eb => jentry_ok (fst eb)) ebs = true -> (forall eb, In eb ebs -> secret_ok eb) ->
    (length ebs <= fuel)%nat ->
    exists off', read_entries secret fuel (N.of_nat (length ebs)) (concat (map enc_entry ebs) ++ rest, off)
                 = Ok (map fst ebs, (rest, off')).
  Proof.
    induction ebs as [|[e blob] ebs IH]; intros fuel rest off Hok Hsec Hf.
    - exists off. destruct fuel; reflexivity.
    - destruct fuel as [|f]; [cbn in Hf; lia|].
      cbn [forallb fst] in Hok. apply andb_prop in Hok as [He Hes].
      cbn [read_entries length map concat fst].
      assert (N.of_nat (S (length ebs)) =? 0 = false) as -> by lia.
      rewrite <- app_assoc.
      destruct (read_entry_enc e blob (S (length (enc_entry (e, blob) ++ concat (map enc_entry ebs) ++ rest)))
                  (concat (map enc_entry ebs) ++ rest) off He (Hsec _ (or_introl eq_refl))) as [o1 H1].
      { pose proof (entry_certs_length e blob (concat (map enc_entry ebs) ++ rest) He). lia. }
      cbn [fst]. rewrite H1.
      replace (N.of_nat (S (length ebs)) - 1) with (N.of_nat (length ebs)) by lia.
      destruct (IH f rest o1 Hes) as [o2 ->]; [intros eb Hin; apply Hsec; now right|cbn in Hf; lia|].
      eauto.
  Qed.

  Lemma entries_enc_length : forall ebs, (length ebs <= length (concat (map enc_entry ebs)))%nat.
  Proof.
    induction ebs as [|eb ebs IH]; cbn [map concat length]; [lia|].
    unfold enc_entry at 1. rewrite !app_length, N_to_be_length. lia.
  Qed.

  Definition magic_ok (m : bytes) : Prop := m = jks_magic \/ m = jceks_magic.

  (* InsecureParse (writer output) = the entries that were written *)
  Lemma jks_parse_encode : forall magic version ebs mac,
    magic_ok magic -> version < 4294967296 -> N.of_nat (length ebs) < 4294967296 -> length mac = 20%nat ->
    forallb (fun eb => jentry_ok (fst eb)) ebs = true -> (forall eb, In eb ebs -> secret_ok eb) ->
    jks_parse secret (jks_encode magic version ebs mac) = Ok (map fst ebs).
  Proof.
    intros magic version ebs mac Hm Hv Hn Hmac Hok Hsec.
    assert (Hml : length magic = 4%nat) by (destruct Hm as [-> | ->]; reflexivity).
    unfold jks_parse, jks_encode.
    assert (Nat.ltb (length (magic ++ N_to_be 4 version ++ N_to_be 4 (N.of_nat (length ebs)) ++ concat (map enc_entry ebs) ++ mac)) 4 = false) as ->.
    { apply Nat.ltb_ge. rewrite app_length. lia. }
    assert (prefix_of jks_magic (magic ++ N_to_be 4 version ++ N_to_be 4 (N.of_nat (length ebs)) ++ concat (map enc_entry ebs) ++ mac)
            || prefix_of jceks_magic (magic ++ N_to_be 4 version ++ N_to_be 4 (N.of_nat (length ebs)) ++ concat (map enc_entry ebs) ++ mac) = true) as ->.
    { destruct Hm as [-> | ->]; rewrite prefix_of_app; [reflexivity|apply orb_true_r]. }
    set (hdr := magic ++ N_to_be 4 version ++ N_to_be 4 (N.of_nat (length ebs))).
    assert (Hhl : length hdr = 12%nat).
    { unfold hdr. rewrite !app_length, !N_to_be_length. lia. }
    replace (magic ++ N_to_be 4 version ++ N_to_be 4 (N.of_nat (length ebs)) ++ concat (map enc_entry ebs) ++ mac)
      with (hdr ++ concat (map enc_entry ebs) ++ mac) by (unfold hdr; now rewrite <- !app_assoc).
    change 12 with (N.of_nat 12). rewrite <- Hhl. rewrite read_n_app.
    assert (drop 8 hdr = N_to_be 4 (N.of_nat (length ebs))) as ->.
    { unfold hdr. rewrite app_assoc.
      replace 8%nat with (length (magic ++ N_to_be 4 version)) by (rewrite app_length, N_to_be_length; lia).
      apply drop_app_length. }
    rewrite (be_N_to_be 4) by exact Hn.
    destruct (read_entries_enc ebs (S (length (hdr ++ concat (map enc_entry ebs) ++ mac))) mac (0 + N.of_nat (length hdr)) Hok Hsec) as [o1 ->].
    { pose proof (entries_enc_length ebs). rewrite !app_length. lia. }
    change 20 with (N.of_nat 20). rewrite <- Hmac. rewrite <- (app_nil_r mac) at 2.
    rewrite read_n_app. reflexivity.
  Qed.
End JksCodec.

(* --- describing the entries --- *)
Section JksChildren.
  Variable cert_info : bytes -> result info.
  Variable enc_name : bytes -> bytes -> bytes.

  Definition is_x509 (c : jcert) : bool := bytes_eqb (map to_upper_ascii (jc_type c)) (bs "X.509").

  (* the child that stands for one certificate of a chain (repaired code) *)
  Definition cert_child (c : jcert) : info :=
    if is_x509 c then match cert_info (jc_bytes c) with Ok i => i | _ => unparsable_cert end
    else Info (jc_type c ++ bs " certificate") [] [].

  Definition certs_calm (cs : list jcert) : Prop :=
    forall c, In c cs -> is_x509 c = true -> is_panic (cert_info (jc_bytes c)) = false.

  Lemma cert_children_total : forall cs, certs_calm cs ->
    cert_children cert_info true cs = Ok (map cert_child cs).
  Proof.
    induction cs as [|c cs IH]; intros H; [reflexivity|].
    assert (Hcs : certs_calm cs) by (intros c' Hc'; apply H; now right).
    cbn [cert_children map]. fold (is_x509 c). rewrite (IH Hcs).
    assert (Hc : cert_child c = if is_x509 c then match cert_info (jc_bytes c) with Ok i => i | _ => unparsable_cert end
                                else Info (jc_type c ++ bs " certificate") [] []) by reflexivity.
    rewrite Hc. destruct (is_x509 c) eqn:Ex; [|reflexivity].
    pose proof (H c (or_introl eq_refl) Ex) as Hp.
    destruct (cert_info (jc_bytes c)); [reflexivity|reflexivity|discriminate].
  Qed.

  Definition entry_child (e : jentry) : info :=
    Info (je_alias e ++ bs " (" ++ entry_type_name (je_type e) ++ bs ")")
         [(bs "Date", jks_date (je_date e))]
         (map cert_child (je_certs e) ++ key_child enc_name e).

  Lemma jks_entries_total : forall es, (forall e, In e es -> certs_calm (je_certs e)) ->
    jks_entries_info cert_info enc_name true es = Ok (map entry_child es).
  Proof.
    induction es as [|e es IH]; intros H; [reflexivity|].
    cbn [jks_entries_info map]. unfold jks_entry_info.
    rewrite cert_children_total by (apply H; now left).
    rewrite IH by (intros e' He'; apply H; now right). reflexivity.
  Qed.
End JksChildren.

(* the pre-repair code: a chain with a certificate crypto/x509 rejects loses a child *)
Definition toy_cert_info (der : bytes) : result info :=
  match der with
  | 48 :: _ => Ok (Info (bs "x.509v3 certificate") [(bs "Serial", der)] [])
  | _ => Err "x509: malformed certificate"
  end.
Definition toy_chain : list jcert :=
  [mkjcert (bs "X.509") [48; 1]; mkjcert (bs "X.509") [0; 0]; mkjcert (bs "X.509") [48; 2]].

(* ====================================================================== *)
(* Part E.  As if inspected alone; pre-repair witnesses; fuel             *)

Lemma Forall2_map_r : forall (A B : Type) (f : A -> B) (P : A -> B -> Prop) (l : list A),
  (forall a, In a l -> P a (f a)) -> Forall2 P l (map f l).
Proof.
  induction l as [|a l IH]; intros H; cbn [map]; constructor.
  - apply H. now left.
  - apply IH. intros a' Ha'. apply H. now right.
Qed.

Lemma entries_of_In_ok : forall its e, layout_ok its = true -> In e (entries_of its) -> entry_ok e = true.
Proof.
  induction its as [|it its IH]; intros e Hok Hin; [destruct Hin|].
  cbn [layout_ok forallb] in Hok. apply andb_prop in Hok as [Hit Hits].
  destruct it as [l|w|w t]; cbn [entries_of] in Hin; try (now apply IH).
  destruct Hin as [<-|Hin]; [exact Hit|now apply IH].
Qed.

(* each child of the multi-entry file is the only child of the file that holds that entry alone *)
Lemma ssh_as_if_alone : forall lib desc its le trail,
  layout_ok its = true ->
  (forall e, In e (entries_of its) -> lib_accepts lib e) ->
  exists children,
    ssh_file ssh_skip lib desc (render its le trail) = Ok (Info desc [] children) /\
    length children = length (entries_of its) /\
    Forall2 (fun e c => forall le' trail',
               ssh_file ssh_skip lib desc (render [IEntry e] le' trail') = Ok (Info desc [] [c]))
            (entries_of its) children.
Proof.
  intros lib desc its le trail Hok Hlib. exists (map (ssh_child lib) (entries_of its)).
  split; [now apply ssh_layout_file|]. split; [apply map_length|].
  apply Forall2_map_r. intros e He le' trail'.
  rewrite ssh_layout_file; [reflexivity| |].
  - cbn [layout_ok forallb item_ok]. now rewrite (entries_of_In_ok its e Hok He).
  - intros e' [<-|[]]. now apply Hlib.
Qed.

Section PemAlone.
  Variable enc : pblock -> bytes.
  Variable dec : bytes -> option (pblock * bytes).
  Variable describe : pblock -> result info.
  Variable d : pblock -> info.
  Hypothesis enc_begin : forall b, prefix_of pem_begin (enc b) = true.
  Hypothesis dec_enc : forall b rest, dec (enc b ++ rest) = Some (b, rest).

  (* a file that holds one block (not PGP armor) is described as that block *)
  Lemma pem_file_single : forall b, is_pgp_type (pb_type b) = false -> describe b = Ok (d b) ->
    pem_file dec describe (enc b) = Ok (d b).
  Proof.
    intros b Hp Hd.
    pose proof (pem_file_bundle enc dec describe d enc_begin dec_enc [([], b)] []) as H.
    cbn [pem_render app] in H. rewrite app_nil_r in H. rewrite H; clear H.
    - unfold listed. cbn [map snd filter]. rewrite Hp. reflexivity.
    - reflexivity.
    - unfold listed. cbn [map snd filter]. rewrite Hp. cbn [negb]. intros b' [<-|[]]. exact Hd.
  Qed.

  Lemma listed_not_pgp : forall items b, In b (listed items) -> is_pgp_type (pb_type b) = false.
  Proof.
    intros items b H. unfold listed in H. apply filter_In in H as [_ H]. now destruct (is_pgp_type (pb_type b)).
  Qed.

  Lemma pem_as_if_alone : forall items tail,
    bundle_ok items tail = true ->
    (forall b, In b (listed items) -> describe b = Ok (d b)) ->
    (2 <= length (listed items))%nat ->
    exists children,
      pem_file dec describe (pem_render enc items tail) = Ok (Info (bs "multiple PEM blocks") [] children) /\
      length children = length (listed items) /\
      Forall2 (fun b c => pem_file dec describe (enc b) = Ok c) (listed items) children.
  Proof.
    intros items tail Hok Hd Hn. exists (map d (listed items)).
    split; [|split; [apply map_length|]].
    - rewrite (pem_file_bundle enc dec describe d enc_begin dec_enc items tail Hok Hd).
      destruct (listed items) as [|b1 [|b2 l]]; cbn [length] in Hn; try lia. reflexivity.
    - apply Forall2_map_r. intros b Hb. apply pem_file_single; [now apply (listed_not_pgp items)|now apply Hd].
  Qed.
End PemAlone.

(* ---- fuel is never exhausted ---- *)
Lemma drop_length_le : forall (A : Type) k (l : list A), (length (drop k l) <= length l)%nat.
Proof. induction k as [|k IH]; intros [|x l]; cbn [drop length]; try lia. specialize (IH l). lia. Qed.

Lemma skip_to_pem_length : forall l, (length (skip_to_pem l) <= length l)%nat.
Proof. intros l. unfold skip_to_pem. destruct (index_of pem_begin l); [apply drop_length_le|cbn; lia]. Qed.

(* pem.Decode returns a strictly shorter rest (getLine's second result is always smaller than
   its argument): the loop of PEMFile does not depend on the fuel it is given *)
Lemma pem_loop_fuel : forall dec describe,
  (forall r b r', dec r = Some (b, r') -> (length r' < length r)%nat) ->
  forall f1 f2 rest, (length rest < f1)%nat -> (length rest < f2)%nat ->
  pem_loop dec describe f1 rest = pem_loop dec describe f2 rest.
Proof.
  intros dec describe Hdec. induction f1 as [|f1 IH]; intros f2 rest H1 H2; [lia|].
  destruct f2 as [|f2]; [lia|]. cbn [pem_loop]. destruct rest as [|x rest]; [reflexivity|].
  destruct (dec (x :: rest)) as [[b r']|] eqn:E; [|reflexivity].
  pose proof (Hdec _ _ _ E) as Hl. pose proof (skip_to_pem_length r') as Hs.
  rewrite (IH f2 (skip_to_pem r')) by lia. reflexivity.
Qed.

Lemma pem_loop_no_fuel_error : forall dec describe,
  (forall r b r', dec r = Some (b, r') -> (length r' < length r)%nat) ->
  (forall b, describe b <> Err "fuel") ->
  forall f rest, (length rest < f)%nat -> pem_loop dec describe f rest <> Err "fuel".
Proof.
  intros dec describe Hdec Hdesc. induction f as [|f IH]; intros rest Hf; [lia|].
  cbn [pem_loop]. destruct rest as [|x rest]; [discriminate|].
  destruct (dec (x :: rest)) as [[b r']|] eqn:E; [|discriminate].
  pose proof (Hdec _ _ _ E) as Hl. pose proof (skip_to_pem_length r') as Hs.
  assert (Hrec : pem_loop dec describe f (skip_to_pem r') <> Err "fuel") by (apply IH; lia).
  destruct (is_pgp_type (pb_type b)); [exact Hrec|].
  specialize (Hdesc b). destruct (describe b); [|intros Hx; apply Hdesc; injection Hx as ->; reflexivity|discriminate].
  destruct (pem_loop dec describe f (skip_to_pem r')); [discriminate|exact Hrec|discriminate].
Qed.

(* the keystore loops: every iteration consumes input, so the fuel (length of the input + 1)
   is never exhausted *)
Lemma drop_length : forall (A : Type) k (l : list A), length (drop k l) = (length l - k)%nat.
Proof. induction k as [|k IH]; intros [|x l]; cbn [drop length]; try lia. apply IH. Qed.

Lemma read_n_len : forall n r b r', read_n n r = Ok (b, r') ->
  (length (fst r') + N.to_nat n = length (fst r))%nat.
Proof.
  intros n r b r' H. unfold read_n in H.
  destruct (N.of_nat (length (fst r)) <? n) eqn:E; [discriminate|].
  injection H as _ <-. cbn [fst]. rewrite drop_length. lia.
Qed.

Lemma read_n_err : forall n r e, read_n n r = Err e -> e <> "fuel"%string.
Proof.
  intros n r e H. unfold read_n in H. destruct (N.of_nat (length (fst r)) <? n); [|discriminate].
  injection H as <-. discriminate.
Qed.

Lemma read_n_nopanic : forall n r e, read_n n r <> Panic e.
Proof. intros n r e. unfold read_n. destruct (N.of_nat (length (fst r)) <? n); discriminate. Qed.

Lemma read_u_len : forall w r v r', read_u w r = Ok (v, r') ->
  (length (fst r') + N.to_nat w = length (fst r))%nat.
Proof.
  intros w r v r' H. unfold read_u in H. destruct (read_n w r) as [[b r1]|e|e] eqn:E; try discriminate.
  injection H as _ <-. exact (read_n_len _ _ _ _ E).
Qed.

Lemma read_u_err : forall w r e, read_u w r = Err e -> e <> "fuel"%string.
Proof.
  intros w r e H. unfold read_u in H. destruct (read_n w r) as [[b r1]|e'|e'] eqn:E; try discriminate.
  injection H as <-. exact (read_n_err _ _ _ E).
Qed.

Lemma read_u_nopanic : forall w r e, read_u w r <> Panic e.
Proof.
  intros w r e H. unfold read_u in H. destruct (read_n w r) as [[b r1]|e'|e'] eqn:E; try discriminate.
  exact (read_n_nopanic _ _ _ E).
Qed.

Lemma read_string_len : forall r s r', read_string r = Ok (s, r') -> (length (fst r') + 2 <= length (fst r))%nat.
Proof.
  intros r s r' H. unfold read_string in H. destruct (read_u 2 r) as [[l r1]|e|e] eqn:E; try discriminate.
  pose proof (read_u_len _ _ _ _ E) as H1. pose proof (read_n_len _ _ _ _ H) as H2.
  change (N.to_nat 2) with 2%nat in H1. lia.
Qed.

Lemma read_string_err : forall r e, read_string r = Err e -> e <> "fuel"%string.
Proof.
  intros r e H. unfold read_string in H. destruct (read_u 2 r) as [[l r1]|e'|e'] eqn:E; try discriminate.
  - exact (read_n_err _ _ _ H).
  - injection H as <-. exact (read_u_err _ _ _ E).
Qed.

Lemma read_certs_no_fuel : forall fuel count r, (length (fst r) < fuel)%nat ->
  read_certs fuel count r <> Err "fuel".
Proof.
  induction fuel as [|f IH]; intros count r Hf; [lia|].
  cbn [read_certs]. destruct (count =? 0); [discriminate|].
  destruct (read_string r) as [[t r1]|e|e] eqn:E1; [| |discriminate].
  2:{ intros Hx. injection Hx as ->. exact (read_string_err _ _ E1 eq_refl). }
  destruct (read_u 4 r1) as [[l r2]|e|e] eqn:E2; [| |discriminate].
  2:{ intros Hx. injection Hx as ->. exact (read_u_err _ _ _ E2 eq_refl). }
  destruct (read_n l r2) as [[b r3]|e|e] eqn:E3; [| |discriminate].
  2:{ intros Hx. injection Hx as ->. exact (read_n_err _ _ _ E3 eq_refl). }
  pose proof (read_string_len _ _ _ E1). pose proof (read_u_len _ _ _ _ E2). pose proof (read_n_len _ _ _ _ E3).
  change (N.to_nat 4) with 4%nat in *. unfold rd, bytes in *.
  assert (Hrec : read_certs f (count - 1) r3 <> Err "fuel") by (apply IH; lia).
  destruct (read_certs f (count - 1) r3) as [[cs r4]|e|e]; [discriminate|exact Hrec|discriminate].
Qed.

Ltac err_fuel E lem := let Hx := fresh "Hx" in intros Hx; injection Hx as Hx; exact (lem E Hx).

Lemma read_certs_len : forall fuel count r cs r', read_certs fuel count r = Ok (cs, r') ->
  (length (fst r') <= length (fst r))%nat.
Proof.
  induction fuel as [|f IH]; intros count r cs r'; cbn [read_certs].
  - destruct (count =? 0); [|discriminate]. intros H. injection H as _ <-. lia.
  - destruct (count =? 0); [intros H; injection H as _ <-; lia|].
    destruct (read_string r) as [[t r1]|x|x] eqn:E1; try (intros; discriminate).
    destruct (read_u 4 r1) as [[l r2]|x|x] eqn:E2; try (intros; discriminate).
    destruct (read_n l r2) as [[b r3]|x|x] eqn:E3; try (intros; discriminate).
    destruct (read_certs f (count - 1) r3) as [[cs' r4]|x|x] eqn:E; try (intros; discriminate).
    intros Hx. injection Hx as _ <-. apply IH in E.
    pose proof (read_string_len _ _ _ E1). pose proof (read_u_len _ _ _ _ E2). pose proof (read_n_len _ _ _ _ E3).
    unfold rd, bytes in *. lia.
Qed.

Section JksFuel.
  Variable secret : N -> bytes -> result (N * bytes * bytes).
  Hypothesis secret_no_fuel : forall off rest, secret off rest <> Err "fuel".

  Lemma read_entry_no_fuel : forall r, read_entry secret (S (length (fst r))) r <> Err "fuel".
  Proof.
    intros r. unfold read_entry.
    destruct (read_u 4 r) as [[typ r1]|x|x] eqn:E1; [|err_fuel E1 (read_u_err 4 r x)|discriminate].
    destruct (read_string r1) as [[alias r2]|x|x] eqn:E2; [|err_fuel E2 (read_string_err r1 x)|discriminate].
    destruct (read_u 8 r2) as [[date r3]|x|x] eqn:E3; [|err_fuel E3 (read_u_err 8 r2 x)|discriminate].
    pose proof (read_u_len _ _ _ _ E1) as L1. pose proof (read_string_len _ _ _ E2) as L2.
    pose proof (read_u_len _ _ _ _ E3) as L3.
    change (N.to_nat 4) with 4%nat in *. change (N.to_nat 8) with 8%nat in *.
    destruct (typ =? 1).
    - destruct (read_u 4 r3) as [[l r4]|x|x] eqn:E4; [|err_fuel E4 (read_u_err 4 r3 x)|discriminate].
      destruct (read_n l r4) as [[key r5]|x|x] eqn:E5; [|err_fuel E5 (read_n_err l r4 x)|discriminate].
      destruct (read_u 4 r5) as [[cc r6]|x|x] eqn:E6; [|err_fuel E6 (read_u_err 4 r5 x)|discriminate].
      pose proof (read_u_len _ _ _ _ E4) as L4. pose proof (read_n_len _ _ _ _ E5) as L5.
      pose proof (read_u_len _ _ _ _ E6) as L6. change (N.to_nat 4) with 4%nat in *.
      assert (Hc : read_certs (S (length (fst r))) cc r6 <> Err "fuel").
      { apply read_certs_no_fuel. unfold rd, bytes in *. lia. }
      destruct (read_certs (S (length (fst r))) cc r6) as [[cs r7]|x|x]; [discriminate|intros Hx; apply Hc; now injection Hx as ->|discriminate].
    - destruct (typ =? 2).
      + assert (Hc : read_certs (S (length (fst r))) 1 r3 <> Err "fuel").
        { apply read_certs_no_fuel. unfold rd, bytes in *. lia. }
        destruct (read_certs (S (length (fst r))) 1 r3) as [[cs r7]|x|x]; [discriminate|intros Hx; apply Hc; now injection Hx as ->|discriminate].
      + destruct (typ =? 3); [|discriminate].
        pose proof (secret_no_fuel (snd r3) (fst r3)) as Hs.
        destruct (secret (snd r3) (fst r3)) as [[[k seal] content]|x|x]; [discriminate| |discriminate].
        intros Hx. apply Hs. now injection Hx as ->.
  Qed.

  Lemma read_entry_len : forall fuel r e r', read_entry secret fuel r = Ok (e, r') ->
    (length (fst r') + 14 <= length (fst r))%nat.
  Proof.
    intros fuel r e r'. unfold read_entry.
    destruct (read_u 4 r) as [[typ r1]|x|x] eqn:E1; try (intros; discriminate).
    destruct (read_string r1) as [[alias r2]|x|x] eqn:E2; try (intros; discriminate).
    destruct (read_u 8 r2) as [[date r3]|x|x] eqn:E3; try (intros; discriminate).
    pose proof (read_u_len _ _ _ _ E1) as L1. pose proof (read_string_len _ _ _ E2) as L2.
    pose proof (read_u_len _ _ _ _ E3) as L3.
    change (N.to_nat 4) with 4%nat in *. change (N.to_nat 8) with 8%nat in *.
    destruct (typ =? 1).
    - destruct (read_u 4 r3) as [[l r4]|x|x] eqn:E4; try (intros; discriminate).
      destruct (read_n l r4) as [[key r5]|x|x] eqn:E5; try (intros; discriminate).
      destruct (read_u 4 r5) as [[cc r6]|x|x] eqn:E6; try (intros; discriminate).
      pose proof (read_u_len _ _ _ _ E4) as L4. pose proof (read_n_len _ _ _ _ E5) as L5.
      pose proof (read_u_len _ _ _ _ E6) as L6. change (N.to_nat 4) with 4%nat in *.
      destruct (read_certs fuel cc r6) as [[cs r7]|x|x] eqn:E; try (intros; discriminate).
      intros Hx. injection Hx as _ <-. apply read_certs_len in E. unfold rd, bytes in *. lia.
    - destruct (typ =? 2).
      + destruct (read_certs fuel 1 r3) as [[cs r7]|x|x] eqn:E; try (intros; discriminate).
        intros Hx. injection Hx as _ <-. apply read_certs_len in E. unfold rd, bytes in *. lia.
      + destruct (typ =? 3).
        * destruct (secret (snd r3) (fst r3)) as [[[k seal] content]|x|x]; try (intros; discriminate).
          intros Hx. injection Hx as _ <-. cbn [fst].
          pose proof (drop_length_le _ (N.to_nat k) (fst r3)). unfold rd, bytes in *. lia.
        * intros Hx. injection Hx as _ <-. unfold rd, bytes in *. lia.
  Qed.

  Lemma read_entries_no_fuel : forall fuel count r, (length (fst r) < fuel)%nat ->
    read_entries secret fuel count r <> Err "fuel".
  Proof.
    induction fuel as [|f IH]; intros count r Hf; [lia|].
    cbn [read_entries]. destruct (count =? 0); [discriminate|].
    pose proof (read_entry_no_fuel r) as H1.
    destruct (read_entry secret _ r) as [[e r1]|x|x] eqn:E; [|intros Hx; injection Hx as ->; first [exact (H1 eq_refl)|exact (H1 E)]|discriminate].
    apply read_entry_len in E.
    assert (Hrec : read_entries secret f (count - 1) r1 <> Err "fuel") by (apply IH; unfold rd, bytes in *; lia).
    destruct (read_entries secret f (count - 1) r1) as [[es r2]|x|x]; [discriminate|exact Hrec|discriminate].
  Qed.
End JksFuel.

(* ====================================================================== *)
(* Part F.  The statements of Props/C06.v                                  *)

Lemma authorized_keys_layout : forall lib its le trail,
  layout_ok its = true -> (forall e, In e (entries_of its) -> lib_accepts lib e) ->
  authorized_keys lib (render its le trail) =
    Ok (Info (bs "SSH authorized_keys") [] (map (ssh_child lib) (entries_of its))).
Proof. intros. unfold authorized_keys. now apply ssh_layout_file. Qed.

Lemma known_hosts_layout : forall lib its le trail,
  layout_ok its = true -> (forall e, In e (entries_of its) -> lib_accepts lib e) ->
  known_hosts lib (render its le trail) =
    Ok (Info (bs "SSH known_hosts") [] (map (ssh_child lib) (entries_of its))).
Proof. intros. unfold known_hosts. now apply ssh_layout_file. Qed.

Lemma ssh_file_bad_line : forall lib desc data l,
  In l (split_lf data) -> ssh_skip l = false -> (exists e, lib l = Err e) ->
  (forall l', In l' (split_lf data) -> is_panic (lib l') = false) ->
  exists e, ssh_file ssh_skip lib desc data = Err e.
Proof.
  intros lib desc data l Hin Hs He Hnp. unfold ssh_file.
  destruct (ssh_bad_line ssh_skip lib (split_lf data) l Hin Hs He Hnp) as [e ->]. eauto.
Qed.

(* non-vacuity: a realistic layout meets the hypotheses *)
Definition example_layout : list item :=
  [IComment [] (bs " my keys"); IEntry toy_k1; IBlank [32; 9]; IComment [32] (bs "ssh-rsa AAAA disabled"); IEntry toy_k2; IBlank []].

Lemma example_layout_ok : layout_ok example_layout = true /\
  (forall e, In e (entries_of example_layout) -> lib_accepts toy_lib e) /\
  entries_of example_layout = [toy_k1; toy_k2].
Proof.
  split; [vm_compute; reflexivity|]. split; [|reflexivity].
  intros e [<-|[<-|[]]]; eexists; split; vm_compute; reflexivity.
Qed.

(* F15 on the pre-repair model *)
Lemma authorized_keys_pre_refuted : exists lib its le trail,
  layout_ok its = true /\ (forall e, In e (entries_of its) -> lib_accepts lib e) /\
  (exists e, authorized_keys_pre lib (render its le trail) = Err e) /\
  exists k, authorized_keys lib (render its le trail) = Ok (Info (bs "SSH authorized_keys") [] k) /\ length k = 2%nat.
Proof.
  exists toy_lib, [IEntry toy_k1; IEntry toy_k2], LF, 1%nat.
  split; [vm_compute; reflexivity|]. split.
  - intros e [<-|[<-|[]]]; eexists; split; vm_compute; reflexivity.
  - split; [eexists; vm_compute; reflexivity|]. eexists. split; vm_compute; reflexivity.
Qed.

Lemma known_hosts_pre_refuted : exists lib its le trail,
  layout_ok its = true /\ (forall e, In e (entries_of its) -> lib_accepts lib e) /\
  (exists e, known_hosts_pre lib (render its le trail) = Err e) /\
  exists k, known_hosts lib (render its le trail) = Ok (Info (bs "SSH known_hosts") [] k) /\ length k = 1%nat.
Proof.
  exists toy_lib, [IComment [] (bs " comment"); IEntry toy_k1], LF, 1%nat.
  split; [vm_compute; reflexivity|]. split.
  - intros e [<-|[]]; eexists; split; vm_compute; reflexivity.
  - split; [eexists; vm_compute; reflexivity|]. eexists. split; vm_compute; reflexivity.
Qed.

(* keystores *)
Lemma keystore_file_encode : forall secret cert_info enc_name desc magic version ebs mac,
  magic_ok magic -> version < 4294967296 -> N.of_nat (length ebs) < 4294967296 -> length mac = 20%nat ->
  forallb (fun eb => jentry_ok (fst eb)) ebs = true -> (forall eb, In eb ebs -> secret_ok secret eb) ->
  (forall eb, In eb ebs -> certs_calm cert_info (je_certs (fst eb))) ->
  jks_parse secret (jks_encode magic version ebs mac) = Ok (map fst ebs) /\
  keystore_file cert_info enc_name true secret desc (jks_encode magic version ebs mac) =
    Ok (Info desc [] (map (entry_child cert_info enc_name) (map fst ebs))).
Proof.
  intros secret cert_info enc_name desc magic version ebs mac Hm Hv Hn Hmac Hok Hsec Hcalm.
  pose proof (jks_parse_encode secret magic version ebs mac Hm Hv Hn Hmac Hok Hsec) as Hp.
  split; [exact Hp|]. unfold keystore_file. rewrite Hp.
  rewrite jks_entries_total; [reflexivity|].
  intros e He. apply in_map_iff in He as [eb [<- Heb]]. now apply Hcalm.
Qed.

(* the chain is complete and in order: one child per certificate, then the key *)
Lemma entry_child_chain : forall cert_info enc_name e,
  i_children (entry_child cert_info enc_name e) = map (cert_child cert_info) (je_certs e) ++ key_child enc_name e /\
  length (map (cert_child cert_info) (je_certs e)) = length (je_certs e) /\
  (forall c i, In c (je_certs e) -> is_x509 c = true -> cert_info (jc_bytes c) = Ok i -> cert_child cert_info c = i).
Proof.
  intros cert_info enc_name e. split; [reflexivity|]. split; [apply map_length|].
  intros c i _ Hx Hi. unfold cert_child. now rewrite Hx, Hi.
Qed.

Lemma jks_chain_pre_refuted : exists cert_info cs,
  certs_calm cert_info cs /\
  exists k, cert_children cert_info false cs = Ok k /\ length k = 2%nat /\ length cs = 3%nat /\
  exists k', cert_children cert_info true cs = Ok k' /\ length k' = 3%nat.
Proof.
  exists toy_cert_info, toy_chain. split.
  - intros c [<-|[<-|[<-|[]]]] _; reflexivity.
  - eexists. split; [vm_compute; reflexivity|]. split; [reflexivity|]. split; [reflexivity|].
    eexists. split; [vm_compute; reflexivity|reflexivity].
Qed.

(* non-vacuity for the keystore codec: a store with a key entry (chain of two), a trusted
   certificate, a secret key (toy sealed-object reader: blob = length :: content) and an entry of unknown type *)
Definition toy_secret (off : N) (rest : bytes) : result (N * bytes * bytes) :=
  match rest with
  | k :: r => Ok (1 + k, bs "PBEWithMD5AndTripleDES", take (N.to_nat k) r)
  | [] => Err "EOF"
  end.
Definition example_store : list (jentry * bytes) :=
  [(mkjentry 1 (bs "mykey") 1702231124000 [48; 3; 1; 2; 3] [] [mkjcert (bs "X.509") [48; 1]; mkjcert (bs "X.509") [48; 2]], []);
   (mkjentry 2 (bs "ca") 0 [] [] [mkjcert (bs "X.509") [48; 9; 9]], []);
   (mkjentry 3 (bs "secret") 5 [7; 8] (bs "PBEWithMD5AndTripleDES") [], [2; 7; 8]);
   (mkjentry 9 (bs "odd") 18446744073709551615 [] [] [], [])].

Lemma example_store_ok :
  forallb (fun eb => jentry_ok (fst eb)) example_store = true /\
  (forall eb, In eb example_store -> secret_ok toy_secret eb) /\
  jks_parse toy_secret (jks_encode jceks_magic 2 example_store (repeat 0 20)) = Ok (map fst example_store).
Proof.
  split; [vm_compute; reflexivity|]. split; [|vm_compute; reflexivity].
  intros eb [<-|[<-|[<-|[<-|[]]]]]; unfold secret_ok; cbn [fst snd je_type]; try discriminate.
  intros _ off rest. reflexivity.
Qed.

(* non-vacuity for the PEM hypotheses: a toy armor (marker, length-prefixed type and body) with its decoder *)
Definition toy_enc (b : pblock) : bytes :=
  pem_begin ++ N.of_nat (length (pb_type b)) :: pb_type b ++ N.of_nat (length (pb_bytes b)) :: pb_bytes b.
Definition toy_dec (l : bytes) : option (pblock * bytes) :=
  if prefix_of pem_begin l then
    match drop (length pem_begin) l with
    | n :: r =>
        match drop (N.to_nat n) r with
        | m :: r' => Some (mkpblock (take (N.to_nat n) r) (take (N.to_nat m) r'), drop (N.to_nat m) r')
        | [] => None
        end
    | [] => None
    end
  else None.

Lemma toy_pem_ok : (forall b, prefix_of pem_begin (toy_enc b) = true) /\
  (forall b rest, toy_dec (toy_enc b ++ rest) = Some (b, rest)).
Proof.
  split; intros b; [apply prefix_of_app|]. intros rest. unfold toy_dec, toy_enc.
  rewrite <- app_assoc, prefix_of_app, drop_app_length. cbn [app].
  rewrite Nat2N.id. rewrite <- app_assoc. rewrite drop_app_length, take_app_length. cbn [app].
  rewrite Nat2N.id, drop_app_length, take_app_length. now destruct b.
Qed.

Definition example_bundle : list (bytes * pblock) :=
  [(bs "Bag Attributes" ++ [10], mkpblock (bs "CERTIFICATE") [48; 1]);
   ([], mkpblock (bs "FOO") [1; 2]);
   (bs "text - with - dashes -----BEGIN" ++ [10], mkpblock (bs "PGP MESSAGE") [3]);
   ([10], mkpblock (bs "PRIVATE KEY") [48; 2])].
Lemma example_bundle_ok : bundle_ok example_bundle (bs "trailing text" ++ [10]) = true /\ length (listed example_bundle) = 3%nat.
Proof. split; vm_compute; reflexivity. Qed.

(* ====================================================================== *)
(* Part G.  PEM bundles over the bytes of the file: encoding/pem.Decode as modelled in Model/Pem.v *)

Module MP := WI.Model.Pem.
Module PP := WI.Proofs.Pem.
Module B64 := WI.Model.Base64.
Module PB64 := WI.Proofs.Base64.

Lemma pem_eol_routes : forall crlf, pem_eol crlf = Routes.eol crlf.
Proof. reflexivity. Qed.

Definition cr_of (crlf : bool) : bytes := if crlf then [13] else [].
Lemma pem_eol_split : forall crlf, pem_eol crlf = cr_of crlf ++ [10].
Proof. now intros [|]. Qed.

Lemma take_app_le : forall (A : Type) n (a y : list A), (n <= length a)%nat -> take n (a ++ y) = take n a.
Proof.
  induction n as [|n IH]; intros a y H; [reflexivity|]. destruct a as [|x a]; [cbn in H; lia|].
  cbn [app take]. rewrite IH by (cbn in H; lia). reflexivity.
Qed.

Lemma in_drop_sp_tab : forall m c, In c m -> MP.is_sp_tab c = false -> In c (MP.drop_sp_tab m).
Proof.
  induction m as [|x m IH]; intros c H Hc; [contradiction|]. cbn [MP.drop_sp_tab].
  destruct (MP.is_sp_tab x) eqn:E; [|exact H].
  destruct H as [->|H]; [congruence|now apply IH].
Qed.

Lemma in_trim_right : forall l c, In c l -> MP.is_sp_tab c = false -> In c (MP.trim_right_sp_tab l).
Proof.
  intros l c H Hc. unfold MP.trim_right_sp_tab. apply -> in_rev. apply in_drop_sp_tab; [now apply in_rev in H|exact Hc].
Qed.

(* getLine on a line that is terminated by a line feed *)
Lemma get_line_lf : forall h y, ~ In 10 h ->
  exists line, MP.get_line (h ++ 10 :: y) = (line, y)
    /\ (forall c, In c line -> In c h)
    /\ (forall c, In c h -> c <> 13 -> MP.is_sp_tab c = false -> In c line).
Proof.
  intros h y Hn. unfold MP.get_line. rewrite PP.index_byte_app by exact Hn.
  assert (Hdrop : drop (S (length h)) (h ++ 10 :: y) = y).
  { replace (h ++ 10 :: y) with ((h ++ [10]) ++ y) by (now rewrite <- app_assoc).
    replace (S (length h)) with (length (h ++ [10])) by (rewrite app_length; cbn; lia). apply PP.drop_app_length. }
  rewrite Hdrop.
  induction h as [|x h0 _] using rev_ind.
  - exists []. split; [reflexivity|]. split; intros c H; contradiction.
  - rewrite app_length. cbn [length].
    replace (Nat.ltb 0 (length h0 + 1)) with true by (symmetry; apply Nat.ltb_lt; lia).
    replace (length h0 + 1 - 1)%nat with (length h0) by lia.
    rewrite <- app_assoc. cbn [app]. rewrite PP.nth_app_length. cbn [andb].
    destruct (x =? 13) eqn:Ex.
    + apply N.eqb_eq in Ex. subst x.
      rewrite PP.take_app_length. eexists. split; [reflexivity|]. split.
      * intros c H. apply PP.trim_right_incl in H. apply in_or_app. now left.
      * intros c H Hc Hs. apply in_trim_right; [|exact Hs].
        apply in_app_or in H as [H|[H|[]]]; [exact H|congruence].
    + replace (h0 ++ x :: 10 :: y) with ((h0 ++ [x]) ++ 10 :: y) by (now rewrite <- app_assoc).
      replace (length h0 + 1)%nat with (length (h0 ++ [x])) by (rewrite app_length; cbn; lia).
      rewrite PP.take_app_length. eexists. split; [reflexivity|]. split.
      * intros c H. now apply PP.trim_right_incl in H.
      * intros c H Hc Hs. now apply in_trim_right.
Qed.

Lemma index_byte_none : forall c l, ~ In c l -> MP.index_byte c l = None.
Proof.
  induction l as [|x l IH]; intros H; [reflexivity|]. cbn [MP.index_byte].
  destruct (x =? c) eqn:E; [apply N.eqb_eq in E; exfalso; apply H; now left|].
  rewrite IH by (intros Hi; apply H; now right). reflexivity.
Qed.

(* getLine on the last line of the data *)
Lemma get_line_last : forall h, ~ In 10 h -> MP.get_line h = (MP.trim_right_sp_tab h, []).
Proof. intros h H. unfold MP.get_line. now rewrite index_byte_none. Qed.

Definition no_colon (l : bytes) : bool := negb (existsb (fun c => c =? 58) l).
Lemma no_colon_intro : forall l, ~ In 58 l -> existsb (fun c => c =? 58) l = false.
Proof.
  intros l H. destruct (existsb (fun c => c =? 58) l) eqn:E; [|reflexivity].
  apply existsb_exists in E as [x [Hx E]]. apply N.eqb_eq in E. subst x. contradiction.
Qed.
Lemma colon_intro : forall l, In 58 l -> existsb (fun c => c =? 58) l = true.
Proof. intros l H. apply existsb_exists. exists 58. now split. Qed.

Lemma skip_headers_step : forall f rest line next n, rest <> [] -> MP.get_line rest = (line, next) ->
  existsb (fun c => c =? 58) line = true -> MP.skip_headers (S f) rest n = MP.skip_headers f next (S n).
Proof.
  intros f rest line next n Hne Hg Hl. cbn [MP.skip_headers]. destruct rest as [|c r]; [congruence|].
  now rewrite Hg, Hl.
Qed.

(* the header lines: every line with a colon is consumed; the first line without one stops the loop *)
Lemma skip_headers_lines : forall crlf hs x line next n fuel,
  (forall h, In h hs -> In 58 h /\ ~ In 10 h) -> (length hs < fuel)%nat ->
  x <> [] -> MP.get_line x = (line, next) -> existsb (fun c => c =? 58) line = false ->
  MP.skip_headers fuel (concat (map (fun h => h ++ pem_eol crlf) hs) ++ x) n = Some (x, (n + length hs)%nat).
Proof.
  intros crlf. induction hs as [|h hs IH]; intros x line next n fuel Hh Hf Hx Hg Hl.
  - destruct fuel as [|f]; [cbn in Hf; lia|]. cbn [map concat app length].
    rewrite (PP.skip_headers_none f x line next n Hx Hg Hl). f_equal. f_equal. lia.
  - destruct fuel as [|f]; [cbn in Hf; lia|]. cbn [map concat].
    destruct (Hh h (or_introl eq_refl)) as [H58 H10].
    rewrite pem_eol_split. rewrite <- !app_assoc.
    set (R := concat (map (fun h0 => h0 ++ cr_of crlf ++ [10]) hs) ++ x).
    assert (Hn : ~ In 10 (h ++ cr_of crlf)).
    { intros H. apply in_app_or in H as [H|H]; [now apply H10|]. destruct crlf; cbn in H; [destruct H as [H|[]]; discriminate|contradiction]. }
    destruct (get_line_lf (h ++ cr_of crlf) R Hn) as (ln & Hgl & _ & Hin).
    replace (h ++ cr_of crlf ++ [10] ++ R) with ((h ++ cr_of crlf) ++ 10 :: R) by (now rewrite <- app_assoc).
    rewrite (skip_headers_step f _ ln R n); [|destruct h; [contradiction|discriminate]|exact Hgl|].
    2:{ apply colon_intro. apply Hin; [apply in_or_app; now left|discriminate|reflexivity]. }
    unfold R.
    assert (Hrec := IH x line next (S n) f (fun h' Hh' => Hh h' (or_intror Hh')) ltac:(cbn in Hf; lia) Hx Hg Hl).
    rewrite pem_eol_split in Hrec.
    replace (fun h0 : list N => h0 ++ cr_of crlf ++ [10]) with (fun h0 : list N => h0 ++ (cr_of crlf ++ [10])) by reflexivity.
    rewrite Hrec. f_equal. f_equal. cbn [length]. lia.
Qed.

(* pem.go:137-183, what Decode does once the type line and the headers are read *)
Definition finish (typ rest2 : bytes) (nh : nat) : MP.attempt :=
  let idx : option (nat * nat) :=
    if Nat.eqb nh 0 && prefix_of MP.pem_end rest2 then Some (O, length MP.pem_end)
    else match index_of (10 :: MP.pem_end) rest2 with
         | Some i => Some (i, (i + S (length MP.pem_end))%nat)
         | None => None
         end in
  match idx with
  | None => MP.Retry rest2
  | Some (end_index, end_trailer_index) =>
      let end_trailer := drop end_trailer_index rest2 in
      let etl := (length typ + length MP.pem_dashes)%nat in
      if Nat.ltb (length end_trailer) etl then MP.Retry rest2
      else
        let rest_of_end_line := drop etl end_trailer in
        let et := take etl end_trailer in
        if negb (prefix_of typ et) || negb (has_suffix MP.pem_dashes et) then MP.Retry rest2
        else
          match fst (MP.get_line rest_of_end_line) with
          | _ :: _ => MP.Retry rest2
          | [] =>
              match B64.std_decode B64.Std (MP.remove_sp_tab (take end_index rest2)) with
              | None => MP.Retry rest2
              | Some body =>
                  MP.Found typ body (snd (MP.get_line (drop (end_index + length MP.pem_end) rest2)))
              end
          end
  end.

Lemma attempt_block_split : forall rest0 tl rest1 rest2 nh,
  MP.get_line rest0 = (tl, rest1) -> has_suffix MP.pem_dashes tl = true ->
  MP.skip_headers (S (length rest1)) rest1 O = Some (rest2, nh) ->
  MP.attempt_block rest0 = finish (take (length tl - length MP.pem_dashes) tl) rest2 nh.
Proof.
  intros rest0 tl rest1 rest2 nh H1 H2 H3. unfold MP.attempt_block. rewrite H1, H2. cbn [negb].
  rewrite H3. reflexivity.
Qed.

(* the END line *)
Definition fin_eol (crlf fin : bool) : bytes := if fin then pem_eol crlf else [].

Lemma end_marker_no_lf : forall label m, ~ In 10 label -> ~ In 10 m -> ~ In 10 (m ++ label ++ MP.pem_dashes).
Proof.
  intros label m Hl Hm H. apply in_app_or in H as [H|H]; [now apply Hm|].
  apply in_app_or in H as [H|H]; [now apply Hl|].
  cbn in H. repeat (destruct H as [H|H]; [discriminate|]). contradiction.
Qed.

Lemma end_marker_trim : forall label m, MP.trim_right_sp_tab (m ++ label ++ MP.pem_dashes) = m ++ label ++ MP.pem_dashes.
Proof.
  intros label m. replace (m ++ label ++ MP.pem_dashes) with ((m ++ label ++ bs "----") ++ [45]).
  2:{ rewrite <- !app_assoc. reflexivity. }
  now apply PP.trim_right_keep.
Qed.

(* the line that holds a marker, the label and the dashes, then the end of the line or of the data *)
Lemma end_marker_line : forall label crlf fin post m, ~ In 10 label -> (fin = true \/ post = []) -> ~ In 10 m ->
  MP.get_line (m ++ label ++ MP.pem_dashes ++ fin_eol crlf fin ++ post) = (m ++ label ++ MP.pem_dashes, post).
Proof.
  intros label crlf fin post m Hl Hf Hm. destruct fin; cbn [fin_eol].
  - replace (m ++ label ++ MP.pem_dashes ++ pem_eol crlf ++ post)
      with ((m ++ label ++ MP.pem_dashes) ++ Routes.eol crlf ++ post) by (now rewrite <- !app_assoc).
    now apply PP.marker_line.
  - destruct Hf as [Hf|Hf]; [discriminate|]. subst post. cbn [app]. rewrite app_nil_r.
    rewrite get_line_last by (now apply end_marker_no_lf). now rewrite end_marker_trim.
Qed.

Lemma end_rest_line : forall crlf fin post, (fin = true \/ post = []) -> fst (MP.get_line (fin_eol crlf fin ++ post)) = [].
Proof.
  intros crlf fin post Hf. destruct fin; cbn [fin_eol].
  - change (pem_eol crlf) with (Routes.eol crlf). now rewrite PP.get_line_empty.
  - destruct Hf as [Hf|Hf]; [discriminate|]. subst post. reflexivity.
Qed.

(* the common end of both ways to find the END line: the trailer is checked, the body decoded *)
Lemma finish_common : forall label crlf fin post rest2 end_index k d,
  ~ In 10 label -> (fin = true \/ post = []) ->
  drop (end_index + k) rest2 = label ++ MP.pem_dashes ++ fin_eol crlf fin ++ post ->
  (exists m, ~ In 10 m /\ drop (end_index + length MP.pem_end) rest2 = m ++ label ++ MP.pem_dashes ++ fin_eol crlf fin ++ post) ->
  B64.std_decode B64.Std (MP.remove_sp_tab (take end_index rest2)) = Some d ->
  (let end_trailer := drop (end_index + k) rest2 in
   let etl := (length label + length MP.pem_dashes)%nat in
   if Nat.ltb (length end_trailer) etl then MP.Retry rest2
   else
     let rest_of_end_line := drop etl end_trailer in
     let et := take etl end_trailer in
     if negb (prefix_of label et) || negb (has_suffix MP.pem_dashes et) then MP.Retry rest2
     else
       match fst (MP.get_line rest_of_end_line) with
       | _ :: _ => MP.Retry rest2
       | [] =>
           match B64.std_decode B64.Std (MP.remove_sp_tab (take end_index rest2)) with
           | None => MP.Retry rest2
           | Some body =>
               MP.Found label body (snd (MP.get_line (drop (end_index + length MP.pem_end) rest2)))
           end
       end) = MP.Found label d post.
Proof.
  intros label crlf fin post rest2 end_index k d Hl Hf Hdrop [m [Hm Hdrop2]] Hdec. cbv zeta.
  rewrite Hdrop, Hdrop2, Hdec.
  rewrite !app_length.
  replace (Nat.ltb (length label + (length MP.pem_dashes + (length (fin_eol crlf fin) + length post)))
                   (length label + length MP.pem_dashes)) with false by (symmetry; apply Nat.ltb_ge; lia).
  replace (label ++ MP.pem_dashes ++ fin_eol crlf fin ++ post) with ((label ++ MP.pem_dashes) ++ fin_eol crlf fin ++ post)
    by (now rewrite <- app_assoc).
  replace (length label + length MP.pem_dashes)%nat with (length (label ++ MP.pem_dashes)) by (now rewrite app_length).
  rewrite PP.drop_app_length, PP.take_app_length, PP.prefix_of_app, PP.has_suffix_app. cbn [negb orb].
  rewrite end_rest_line by exact Hf.
  rewrite <- app_assoc. rewrite end_marker_line by assumption. reflexivity.
Qed.

(* the END line is found through "\n-----END " after a body text without dashes *)
Lemma finish_index : forall label crlf fin post pre0 nh d,
  ~ In 10 label -> (fin = true \/ post = []) ->
  forallb PP.body_char pre0 = true -> B64.std_decode B64.Std pre0 = Some d ->
  (nh <> O \/ match pre0 with c :: _ => PP.body_char c = true | [] => False end) ->
  finish label (pre0 ++ (10 :: MP.pem_end) ++ label ++ MP.pem_dashes ++ fin_eol crlf fin ++ post) nh = MP.Found label d post.
Proof.
  intros label crlf fin post pre0 nh d Hl Hf Hpre Hdec Hnh. unfold finish.
  set (E := label ++ MP.pem_dashes ++ fin_eol crlf fin ++ post).
  assert (Hcond : Nat.eqb nh 0 && prefix_of MP.pem_end (pre0 ++ (10 :: MP.pem_end) ++ E) = false).
  { destruct Hnh as [Hnh|Hnh].
    - destruct nh; [congruence|reflexivity].
    - destruct pre0 as [|c t]; [contradiction|]. rewrite andb_false_iff. right.
      cbn [app]. change MP.pem_end with (45 :: bs "----END "). cbn [prefix_of].
      destruct (45 =? c) eqn:Ec; [|reflexivity]. apply N.eqb_eq in Ec. subst c. discriminate Hnh. }
  rewrite Hcond.
  assert (Hidx : index_of (10 :: MP.pem_end) (pre0 ++ (10 :: MP.pem_end) ++ E) = Some (length pre0)).
  { unfold index_of. change ((10 :: MP.pem_end) ++ E) with (10 :: 45 :: bs "----END " ++ E).
    change (10 :: MP.pem_end) with (10 :: 45 :: bs "----END ").
    rewrite PP.index_after_dashless; [reflexivity|].
    apply (PP.forallb_not_in PP.body_char); [exact Hpre|reflexivity]. }
  rewrite Hidx.
  apply (finish_common label crlf fin post _ (length pre0) (S (length MP.pem_end)) d Hl Hf).
  - replace (length pre0 + S (length MP.pem_end))%nat with (length pre0 + length (10%N :: MP.pem_end))%nat by reflexivity.
    apply PP.drop_app_plus.
  - exists [32]. split; [intros [H|[]]; discriminate|].
    replace (pre0 ++ (10 :: MP.pem_end) ++ E) with ((pre0 ++ (10 :: bs "-----END")) ++ ([32] ++ E)).
    2:{ rewrite <- !app_assoc. reflexivity. }
    replace (length pre0 + length MP.pem_end)%nat with (length (pre0 ++ (10 :: bs "-----END"))).
    2:{ rewrite !app_length. reflexivity. }
    apply PP.drop_app_length.
  - rewrite PP.take_app_length. unfold MP.remove_sp_tab. rewrite PP.filter_id; [exact Hdec|].
    rewrite forallb_forall in *. intros x Hx. specialize (Hpre x Hx). unfold PP.body_char in Hpre.
    apply andb_true_iff in Hpre as [_ H]. exact H.
Qed.

(* an empty block without headers: the END line follows the BEGIN line immediately *)
Lemma finish_prefix : forall label crlf fin post,
  ~ In 10 label -> (fin = true \/ post = []) ->
  finish label (MP.pem_end ++ label ++ MP.pem_dashes ++ fin_eol crlf fin ++ post) O = MP.Found label [] post.
Proof.
  intros label crlf fin post Hl Hf. unfold finish. rewrite PP.prefix_of_app. cbn [Nat.eqb andb].
  apply (finish_common label crlf fin post _ O (length MP.pem_end) [] Hl Hf).
  - apply PP.drop_app_length.
  - exists []. split; [intros []|]. cbn [app Nat.add]. apply PP.drop_app_length.
  - reflexivity.
Qed.

(* the base64 text of a body, broken into lines of any width *)
Lemma wrapped_chars : forall w crlf d, bytes_ok d = true ->
  forallb PP.body_char (B64.wrap w crlf (B64.encode B64.Std d)) = true.
Proof.
  intros w crlf d H. apply PP.wrap_forall; try reflexivity. unfold B64.encode.
  apply (PP.encode_core_forall PP.body_char false true) with (n := S (length d)); try reflexivity; [|lia|assumption].
  intros v Hv.
  exact (PB64.forall_range (fun v => PP.body_char (B64.b64char false v)) 64 ltac:(vm_compute; reflexivity) v Hv).
Qed.

Lemma wrapped_strip : forall w crlf d, bytes_ok d = true ->
  B64.strip_nl (B64.wrap w crlf (B64.encode B64.Std d)) = B64.encode_core false true d
  /\ forall f, (length (B64.encode_core false true d) < f)%nat -> B64.core f false true (B64.encode_core false true d) = Some d.
Proof.
  intros w crlf d H.
  destruct (PB64.encode_core_props false true (S (length d)) d (Nat.lt_succ_diag_r _) H) as [Hnl Hc].
  split; [|exact Hc]. unfold B64.encode. cbn [B64.enc_url B64.enc_padded]. now apply PB64.strip_wrap.
Qed.

Lemma strip_nl_crs : forall crlf, B64.strip_nl (cr_of crlf) = [] /\ B64.strip_nl (pem_eol crlf) = [].
Proof. intros [|]; split; reflexivity. Qed.

Lemma encode_core_nonempty : forall d, d <> [] -> B64.encode_core false true d <> [].
Proof. intros [|a [|b [|c r]]] H; [congruence|discriminate..]. Qed.

Lemma wrapped_head : forall w crlf d, bytes_ok d = true -> d <> [] ->
  match B64.wrap w crlf (B64.encode B64.Std d) with c :: _ => PP.body_char c = true | [] => False end.
Proof.
  intros w crlf d H Hne. pose proof (wrapped_chars w crlf d H) as Hc.
  destruct (wrapped_strip w crlf d H) as [Hs _].
  destruct (B64.wrap w crlf (B64.encode B64.Std d)) as [|c t].
  - cbn in Hs. symmetry in Hs. now apply encode_core_nonempty in Hs.
  - cbn [forallb] in Hc. now apply andb_true_iff in Hc as [Hc _].
Qed.

Lemma body_char_crs : forall crlf, forallb PP.body_char (cr_of crlf) = true /\ forallb PP.body_char (pem_eol crlf) = true.
Proof. intros [|]; split; reflexivity. Qed.

(* what a block may look like for pem.Decode to return it (block_ok, boolean):
   the label has no line feed; header lines have a colon and no line feed; the body consists of octets;
   an empty block without headers must not have a colon in its label (its END line would be read as a header) *)
Definition has_byte (c : N) (l : bytes) : bool := existsb (fun x => x =? c) l.
Definition block_ok (b : ablock) : bool :=
  negb (has_byte 10 (ab_label b))
  && forallb (fun h => has_byte 58 h && negb (has_byte 10 h)) (ab_headers b)
  && bytes_ok (ab_body b)
  && (negb (is_nil (ab_headers b)) || negb (is_nil (ab_body b)) || negb (has_byte 58 (ab_label b))).

Lemma has_byte_false : forall c l, has_byte c l = false -> ~ In c l.
Proof.
  intros c l H Hin. unfold has_byte in H.
  assert (existsb (fun x => x =? c) l = true) by (apply existsb_exists; exists c; split; [assumption|apply N.eqb_refl]).
  congruence.
Qed.
Lemma has_byte_true : forall c l, has_byte c l = true -> In c l.
Proof. intros c l H. apply existsb_exists in H as [x [Hx E]]. apply N.eqb_eq in E. now subst x. Qed.

Lemma concat_lines_length : forall crlf hs, (forall h, In h hs -> In 58 h) ->
  (length hs <= length (concat (map (fun h => h ++ pem_eol crlf) hs)))%nat.
Proof.
  intros crlf. induction hs as [|h hs IH]; intros H; cbn [map concat length]; [lia|].
  rewrite !app_length. specialize (IH (fun h' Hh' => H h' (or_intror Hh'))).
  destruct h; [destruct (H [] (or_introl eq_refl))|]. cbn [length]. lia.
Qed.

(* pem.Decode, one pass of its loop, right after the "-----BEGIN " of an armored block *)
Theorem attempt_armor : forall b post, block_ok b = true -> (ab_fin b = true \/ post = []) ->
  MP.attempt_block (drop (length pem_begin) (armor b ++ post)) = MP.Found (ab_label b) (ab_body b) post.
Proof.
  intros [label hs d w crlf fin] post Hok Hf. cbn [ab_fin] in Hf.
  unfold block_ok in Hok. cbn [ab_label ab_headers ab_body] in Hok.
  apply andb_true_iff in Hok as [Hok Hcolon]. apply andb_true_iff in Hok as [Hok Hd].
  apply andb_true_iff in Hok as [Hl Hhs].
  assert (Hl10 : ~ In 10 label) by (apply has_byte_false; now destruct (has_byte 10 label)).
  assert (Hh : forall h, In h hs -> In 58 h /\ ~ In 10 h).
  { intros h Hin. rewrite forallb_forall in Hhs. specialize (Hhs h Hin). apply andb_true_iff in Hhs as [H1 H2].
    split; [now apply has_byte_true|apply has_byte_false; now destruct (has_byte 10 h)]. }
  unfold armor. cbn [ab_label ab_headers ab_body ab_wrap ab_crlf ab_fin].
  rewrite <- !app_assoc. rewrite PP.drop_app_length.
  set (E := label ++ pem_dashes ++ fin_eol crlf fin ++ post).
  set (rest1 := armor_headers crlf hs ++ armor_body w crlf d ++ pem_end ++ E).
  change (MP.attempt_block (label ++ pem_dashes ++ pem_eol crlf ++ rest1) = MP.Found label d post).
  assert (Htl : MP.get_line (label ++ pem_dashes ++ pem_eol crlf ++ rest1) = (label ++ MP.pem_dashes, rest1)).
  { replace (label ++ pem_dashes ++ pem_eol crlf ++ rest1) with (([] ++ label ++ MP.pem_dashes) ++ Routes.eol crlf ++ rest1)
      by (cbn [app]; now rewrite <- !app_assoc).
    rewrite (PP.marker_line label crlf Hl10 [] (fun H => H)). reflexivity. }
  assert (Htyp : take (length (label ++ MP.pem_dashes) - length MP.pem_dashes) (label ++ MP.pem_dashes) = label).
  { rewrite app_length. replace (length label + length MP.pem_dashes - length MP.pem_dashes)%nat with (length label) by lia.
    apply PP.take_app_length. }
  assert (Hsplit : forall rest2 nh, MP.skip_headers (S (length rest1)) rest1 O = Some (rest2, nh) ->
            MP.attempt_block (label ++ pem_dashes ++ pem_eol crlf ++ rest1) = finish label rest2 nh).
  { intros rest2 nh Hs. rewrite <- Htyp at 2.
    apply (attempt_block_split _ (label ++ MP.pem_dashes) rest1 rest2 nh Htl (PP.has_suffix_app label MP.pem_dashes) Hs). }
  clear Htl Htyp.
  (* the text before "\n-----END " and what it decodes to *)
  destruct (wrapped_strip w crlf d Hd) as [Hstrip Hcore].
  destruct (strip_nl_crs crlf) as [Hscr Hseol]. destruct (body_char_crs crlf) as [Hccr Hceol].
  pose proof (wrapped_chars w crlf d Hd) as Hwc.
  set (W := B64.wrap w crlf (B64.encode B64.Std d)) in *.
  assert (HdecW : forall a z, B64.strip_nl a = [] -> B64.strip_nl z = [] -> B64.std_decode B64.Std (a ++ W ++ z) = Some d).
  { intros a z Ha Hz. unfold B64.std_decode. cbv zeta. rewrite !PB64.strip_app, Ha, Hz, Hstrip, app_nil_r. cbn [app].
    apply Hcore. apply Nat.lt_succ_diag_r. }
  destruct hs as [|h0 hs'].
  - (* no headers *)
    cbn [armor_headers app] in rest1.
    destruct d as [|d0 d'].
    + (* empty body: the END line follows at once *)
      cbn [armor_body app] in rest1.
      assert (Hlc : ~ In 58 label).
      { cbn [is_nil negb orb] in Hcolon. apply has_byte_false. now destruct (has_byte 58 label). }
      assert (Hg : MP.get_line rest1 = (MP.pem_end ++ label ++ MP.pem_dashes, post)).
      { unfold rest1, E. apply end_marker_line; try assumption. intros H. cbn in H. repeat (destruct H as [H|H]; [discriminate|]). contradiction. }
      rewrite (Hsplit rest1 O).
      * unfold rest1, E. now apply finish_prefix.
      * apply (PP.skip_headers_none _ rest1 (MP.pem_end ++ label ++ MP.pem_dashes) post O); [unfold rest1; discriminate|exact Hg|].
        apply no_colon_intro. intros H. apply in_app_or in H as [H|H].
        { cbn in H. repeat (destruct H as [H|H]; [discriminate|]). contradiction. }
        apply in_app_or in H as [H|H]; [now apply Hlc|].
        cbn in H. repeat (destruct H as [H|H]; [discriminate|]). contradiction.
    + (* body lines *)
      assert (Hne : d0 :: d' <> []) by discriminate.
      pose proof (wrapped_head w crlf (d0 :: d') Hd Hne) as Hhead. fold W in Hhead.
      assert (Hr1 : rest1 = (W ++ cr_of crlf) ++ (10 :: MP.pem_end) ++ E).
      { unfold rest1. cbn [armor_body]. fold W. rewrite pem_eol_split. rewrite <- !app_assoc. reflexivity. }
      assert (HWc : forallb PP.body_char (W ++ cr_of crlf) = true) by (now rewrite forallb_app, Hwc, Hccr).
      destruct (MP.get_line rest1) as [ln nx] eqn:Hgl.
      assert (Hsub : forall c, In c ln -> In c (W ++ pem_eol crlf)).
      { intros c Hc. apply (PP.get_line_incl (W ++ pem_eol crlf) (MP.pem_end ++ E)).
        - apply in_or_app. right. rewrite pem_eol_split. apply in_or_app. right. now left.
        - replace ((W ++ pem_eol crlf) ++ MP.pem_end ++ E) with rest1; [rewrite Hgl; exact Hc|].
          unfold rest1, W. cbn [armor_body]. rewrite <- !app_assoc. reflexivity. }
      rewrite (Hsplit rest1 O).
      * rewrite Hr1. apply finish_index; try assumption.
        -- specialize (HdecW [] (cr_of crlf) eq_refl Hscr). exact HdecW.
        -- right. destruct W; [contradiction|exact Hhead].
      * apply (PP.skip_headers_none _ rest1 ln nx O).
        -- rewrite Hr1. destruct W; [contradiction|discriminate].
        -- exact Hgl.
        -- apply no_colon_intro. intros H. apply Hsub in H. revert H.
           apply (PP.forallb_not_in PP.body_char); [now rewrite forallb_app, Hwc, Hceol|reflexivity].
  - (* header lines, an empty line, then the body *)
    set (hs := h0 :: hs') in *.
    set (x := pem_eol crlf ++ armor_body w crlf d ++ pem_end ++ E).
    assert (Hr1 : rest1 = concat (map (fun h => h ++ pem_eol crlf) hs) ++ x).
    { unfold rest1, x, armor_headers, hs. rewrite <- !app_assoc. reflexivity. }
    assert (Hskip : MP.skip_headers (S (length rest1)) rest1 O = Some (x, length hs)).
    { rewrite Hr1. change (length hs) with (0 + length hs)%nat.
      apply (skip_headers_lines crlf hs x [] (armor_body w crlf d ++ pem_end ++ E)); try assumption.
      - rewrite app_length. pose proof (concat_lines_length crlf hs (fun h Hin => proj1 (Hh h Hin))). lia.
      - unfold x. destruct crlf; discriminate.
      - unfold x. change (pem_eol crlf) with (Routes.eol crlf). apply PP.get_line_empty.
      - reflexivity. }
    rewrite (Hsplit x (length hs) Hskip).
    destruct d as [|d0 d'].
    + assert (Hx : x = cr_of crlf ++ (10 :: MP.pem_end) ++ E).
      { unfold x. cbn [armor_body app]. rewrite pem_eol_split, <- !app_assoc. reflexivity. }
      rewrite Hx. apply finish_index; try assumption.
      * unfold B64.std_decode. cbv zeta. rewrite Hscr. reflexivity.
      * left. unfold hs. discriminate.
    + assert (Hx : x = (pem_eol crlf ++ W ++ cr_of crlf) ++ (10 :: MP.pem_end) ++ E).
      { unfold x. cbn [armor_body]. fold W. rewrite (pem_eol_split crlf) at 2. rewrite <- !app_assoc. reflexivity. }
      rewrite Hx. apply finish_index; try assumption.
      * now rewrite !forallb_app, Hceol, Hwc, Hccr.
      * now apply HdecW.
      * left. unfold hs. discriminate.
Qed.

Lemma armor_begin : forall b, prefix_of pem_begin (armor b) = true.
Proof. intros b. unfold armor. apply prefix_of_app. Qed.

(* dec_enc, no longer a hypothesis: pem.Decode at the start of an armored block returns that block and
   exactly the bytes after its armor *)
Theorem pem_dec_armor : forall b rest, block_ok b = true -> (ab_fin b = true \/ rest = []) ->
  pem_dec (armor b ++ rest) = Some (ablock_block b, rest).
Proof.
  intros b rest Hok Hf. unfold pem_dec, MP.pem_decode. cbn [MP.decode_go]. unfold MP.find_start.
  assert (Hp : prefix_of MP.pem_begin (armor b ++ rest) = true).
  { unfold armor. rewrite <- !app_assoc. apply PP.prefix_of_app. }
  rewrite Hp. change (length MP.pem_begin) with (length pem_begin).
  rewrite (attempt_armor b rest Hok Hf). reflexivity.
Qed.

(* ---- pem.Decode always returns a strictly shorter rest ---- *)
Lemma get_line_snd_len : forall x, (length (snd (MP.get_line x)) <= length x)%nat.
Proof.
  intros x. unfold MP.get_line. destruct (MP.index_byte 10 x); cbn [snd]; [apply drop_length_le|cbn; lia].
Qed.

Lemma skip_headers_len : forall f rest n r2 n', MP.skip_headers f rest n = Some (r2, n') -> (length r2 <= length rest)%nat.
Proof.
  induction f as [|f IH]; intros rest n r2 n' H; [discriminate|]. cbn [MP.skip_headers] in H.
  destruct rest as [|c r]; [discriminate|].
  destruct (MP.get_line (c :: r)) as [line next] eqn:E.
  destruct (existsb (fun c => c =? 58) line).
  - apply IH in H. pose proof (get_line_snd_len (c :: r)) as Hl. rewrite E in Hl. cbn [snd] in Hl. lia.
  - injection H as <- _. lia.
Qed.

Lemma attempt_block_len : forall r0,
  match MP.attempt_block r0 with
  | MP.Found _ _ r => (length r <= length r0)%nat
  | MP.Retry r => (length r <= length r0)%nat
  | MP.GiveUp => True
  end.
Proof.
  intros r0. unfold MP.attempt_block.
  destruct (MP.get_line r0) as [tl rest1] eqn:E1.
  pose proof (get_line_snd_len r0) as L1. rewrite E1 in L1. cbn [snd] in L1.
  destruct (negb (has_suffix MP.pem_dashes tl)); [exact L1|].
  destruct (MP.skip_headers (S (length rest1)) rest1 0) as [[rest2 nh]|] eqn:E2; [|exact I].
  pose proof (skip_headers_len _ _ _ _ _ E2) as L2.
  assert (L : (length rest2 <= length r0)%nat) by lia.
  destruct (if Nat.eqb nh 0 && prefix_of MP.pem_end rest2 then Some (O, length MP.pem_end)
            else match index_of (10 :: MP.pem_end) rest2 with
                 | Some i => Some (i, (i + S (length MP.pem_end))%nat)
                 | None => None
                 end) as [[ei eti]|]; [|exact L].
  destruct (Nat.ltb _ _); [exact L|].
  destruct (_ || _); [exact L|].
  destruct (fst (MP.get_line _)); [|exact L].
  destruct (B64.std_decode _ _); [|exact L].
  pose proof (get_line_snd_len (drop (ei + length MP.pem_end) rest2)) as L3.
  pose proof (drop_length_le _ (ei + length MP.pem_end) rest2) as L4. lia.
Qed.

Lemma find_start_len : forall rest r0, MP.find_start rest = Some r0 -> (length r0 < length rest)%nat.
Proof.
  intros rest r0 H. unfold MP.find_start in H.
  destruct (prefix_of MP.pem_begin rest) eqn:E.
  - assert (Hr : r0 = drop (length MP.pem_begin) rest) by congruence.
    apply PP.prefix_of_length in E. rewrite Hr, drop_length.
    change (length MP.pem_begin) with 11%nat in *. lia.
  - destruct (index_of (10 :: MP.pem_begin) rest) as [i|] eqn:Ei; [|discriminate].
    assert (Hr : r0 = drop (i + S (length MP.pem_begin)) rest) by congruence.
    unfold index_of in Ei. apply PP.index_from_length in Ei. rewrite Hr, drop_length.
    change (length (10 :: MP.pem_begin)) with 12%nat in Ei. lia.
Qed.

Lemma decode_go_len : forall f rest t b r, MP.decode_go f rest = Some (t, b, r) -> (length r < length rest)%nat.
Proof.
  induction f as [|f IH]; intros rest t b r H; [discriminate|]. cbn [MP.decode_go] in H.
  destruct (MP.find_start rest) as [r0|] eqn:E0; [|discriminate].
  apply find_start_len in E0. pose proof (attempt_block_len r0) as L.
  destruct (MP.attempt_block r0) as [t' b' r'|r'|]; [|apply IH in H; lia|discriminate].
  injection H as _ _ <-. lia.
Qed.

Theorem pem_dec_shorter : forall r b r', pem_dec r = Some (b, r') -> (length r' < length r)%nat.
Proof.
  intros r b r' H. unfold pem_dec in H. destruct (MP.pem_decode r) as [[[t bb] rr]|] eqn:E; [|discriminate].
  injection H as _ <-. exact (decode_go_len _ _ _ _ _ E).
Qed.

(* ---- bundles, generic in how a block is written down ---- *)
Section PemBundleG.
  Variable B : Type.
  Variable blk : B -> pblock.                          (* what the written block holds *)
  Variable fin : B -> bool.                            (* its END line is terminated *)
  Variable good : B -> bool.
  Variable enc : B -> bytes.
  Variable dec : bytes -> option (pblock * bytes).
  Variable describe : pblock -> result info.
  Variable d : pblock -> info.
  Hypothesis enc_begin : forall b, prefix_of pem_begin (enc b) = true.
  Hypothesis dec_enc : forall b rest, good b = true -> (fin b = true \/ rest = []) ->
    dec (enc b ++ rest) = Some (blk b, rest).

  Fixpoint render_g (items : list (bytes * B)) (tail : bytes) : bytes :=
    match items with
    | [] => tail
    | (j, b) :: r => j ++ enc b ++ render_g r tail
    end.
  (* only the last block may lack the line ending of its END line, and only at the very end of the file *)
  Fixpoint ends_ok (items : list (bytes * B)) (tail : bytes) : bool :=
    match items with
    | [] => true
    | (_, b) :: r => match r with [] => fin b || is_nil tail | _ => fin b && ends_ok r tail end
    end.
  Definition bundle_ok_g (items : list (bytes * B)) (tail : bytes) : bool :=
    forallb (fun jb => junk_ok (fst jb) && good (snd jb)) items && junk_end tail && ends_ok items tail.
  Definition listed_g (items : list (bytes * B)) : list B :=
    filter (fun b => negb (is_pgp_type (pb_type (blk b)))) (map snd items).

  Lemma enc_nonempty_g : forall b rest, exists x r, enc b ++ rest = x :: r.
  Proof.
    intros b rest. destruct (prefix_of_split _ _ (enc_begin b)) as [t ->]. unfold pem_begin. cbn. eauto.
  Qed.

  Lemma bundle_ok_tail : forall jb r tail, bundle_ok_g (jb :: r) tail = true -> bundle_ok_g r tail = true.
  Proof.
    intros [j b] r tail H. unfold bundle_ok_g in *. cbn [forallb] in H.
    apply andb_prop in H as [H He]. apply andb_prop in H as [Hi Ht]. apply andb_prop in Hi as [_ Hi].
    rewrite Hi, Ht. cbn [andb]. cbn [ends_ok] in He. destruct r as [|jb2 r']; [reflexivity|].
    now apply andb_prop in He as [_ He].
  Qed.

  Lemma bundle_ok_head : forall j b r tail, bundle_ok_g ((j, b) :: r) tail = true ->
    junk_ok j = true /\ good b = true /\ (fin b = true \/ render_g r tail = []).
  Proof.
    intros j b r tail H. unfold bundle_ok_g in H. cbn [forallb fst snd] in H.
    apply andb_prop in H as [H He]. apply andb_prop in H as [Hi Ht]. apply andb_prop in Hi as [Hjb _].
    apply andb_prop in Hjb as [Hj Hg]. split; [exact Hj|]. split; [exact Hg|].
    cbn [ends_ok] in He. destruct r as [|jb2 r'].
    - cbn [render_g]. apply orb_prop in He as [He|He]; [now left|right; now apply is_nil_true].
    - apply andb_prop in He as [He _]. now left.
  Qed.

  Lemma skip_render_g : forall items tail, bundle_ok_g items tail = true ->
    skip_to_pem (render_g items tail) =
      match items with
      | [] => []
      | (j, b) :: r => enc b ++ render_g r tail
      end.
  Proof.
    intros items tail H. destruct items as [|[j b] r]; cbn [render_g].
    - unfold bundle_ok_g in H. apply andb_prop in H as [H _]. apply andb_prop in H as [_ Ht]. now apply skip_end.
    - destruct (bundle_ok_head _ _ _ _ H) as [Hj _]. apply skip_junk; [exact Hj|].
      destruct (prefix_of_split _ _ (enc_begin b)) as [t ->]. rewrite <- app_assoc. apply prefix_of_app.
  Qed.

  Lemma pem_loop_bundle_g : forall items tail fuel,
    bundle_ok_g items tail = true -> (length items < fuel)%nat ->
    (forall b, In b (listed_g items) -> describe (blk b) = Ok (d (blk b))) ->
    pem_loop dec describe fuel (skip_to_pem (render_g items tail)) = Ok (map (fun b => d (blk b)) (listed_g items)).
  Proof.
    induction items as [|[j b] r IH]; intros tail fuel Hok Hf Hd.
    - rewrite skip_render_g by exact Hok. destruct fuel; reflexivity.
    - rewrite skip_render_g by exact Hok.
      destruct fuel as [|f]; [cbn in Hf; lia|].
      destruct (enc_nonempty_g b (render_g r tail)) as [x [rr E]].
      destruct (bundle_ok_head _ _ _ _ Hok) as (_ & Hg & Hfin).
      cbn [pem_loop]. rewrite E. rewrite <- E. rewrite (dec_enc b _ Hg Hfin).
      pose proof (bundle_ok_tail _ _ _ Hok) as Hok'.
      unfold listed_g in *. cbn [map snd filter] in *.
      destruct (is_pgp_type (pb_type (blk b))) eqn:Ep; cbn [negb] in *.
      + apply IH; [exact Hok'|cbn in Hf; lia|exact Hd].
      + rewrite (Hd b (or_introl eq_refl)).
        rewrite IH; [reflexivity|exact Hok'|cbn in Hf; lia|].
        intros b' Hb'. apply Hd. now right.
  Qed.

  Lemma render_length_g : forall items tail, (length items <= length (render_g items tail))%nat.
  Proof.
    induction items as [|[j b] r IH]; intros tail; cbn [length render_g]; [lia|].
    destruct (enc_nonempty_g b []) as [x [rr E]]. rewrite app_nil_r in E.
    rewrite !app_length, E. cbn [length]. specialize (IH tail). lia.
  Qed.

  Lemma pem_file_bundle_g : forall items tail,
    bundle_ok_g items tail = true ->
    (forall b, In b (listed_g items) -> describe (blk b) = Ok (d (blk b))) ->
    pem_file dec describe (render_g items tail) =
      match map (fun b => d (blk b)) (listed_g items) with
      | [] => Err "no valid PEM blocks"
      | [i] => Ok i
      | k => Ok (Info (bs "multiple PEM blocks") [] k)
      end.
  Proof.
    intros items tail Hok Hd. unfold pem_file.
    rewrite (pem_loop_bundle_g items tail _ Hok);
      [destruct (map (fun b => d (blk b)) (listed_g items)) as [|? [|? ?]]; reflexivity| |exact Hd].
    pose proof (render_length_g items tail). lia.
  Qed.
End PemBundleG.

(* ---- the instance: blocks armored as in Model/Containers.v [armor], decoded by [pem_dec] ---- *)
Definition bundle_text : list (bytes * ablock) -> bytes -> bytes := render_g ablock armor.
Definition bundle_text_ok : list (bytes * ablock) -> bytes -> bool := bundle_ok_g ablock ab_fin block_ok.
Definition listed_blocks : list (bytes * ablock) -> list ablock := listed_g ablock ablock_block.

Theorem pem_file_bytes : forall describe d items tail,
  bundle_text_ok items tail = true ->
  (forall b, In b (listed_blocks items) -> describe (ablock_block b) = Ok (d (ablock_block b))) ->
  pem_file pem_dec describe (bundle_text items tail) =
    match map (fun b => d (ablock_block b)) (listed_blocks items) with
    | [] => Err "no valid PEM blocks"
    | [i] => Ok i
    | k => Ok (Info (bs "multiple PEM blocks") [] k)
    end.
Proof.
  intros describe d. exact (pem_file_bundle_g ablock ablock_block ab_fin block_ok armor pem_dec describe d armor_begin pem_dec_armor).
Qed.

(* a block on its own, however it is written (any line width, line ending, headers, END line
   terminated or not), is described as that block *)
Lemma pem_file_single_bytes : forall describe d b, block_ok b = true -> is_pgp_type (ab_label b) = false ->
  describe (ablock_block b) = Ok (d (ablock_block b)) ->
  pem_file pem_dec describe (armor b) = Ok (d (ablock_block b)).
Proof.
  intros describe d b Hok Hp Hd.
  pose proof (pem_file_bytes describe d [([], b)] []) as H.
  unfold bundle_text in H. cbn [render_g app] in H. rewrite app_nil_r in H. rewrite H; clear H.
  - unfold listed_blocks, listed_g. cbn [map snd filter ablock_block pb_type]. rewrite Hp. reflexivity.
  - unfold bundle_text_ok, bundle_ok_g. cbn [forallb fst snd ends_ok is_nil]. rewrite Hok, orb_true_r. reflexivity.
  - unfold listed_blocks, listed_g. cbn [map snd filter ablock_block pb_type]. rewrite Hp. cbn [negb].
    intros b' [<-|[]]. exact Hd.
Qed.

Lemma pem_as_if_alone_bytes : forall describe d items tail,
  bundle_text_ok items tail = true ->
  (forall b, In b (listed_blocks items) -> describe (ablock_block b) = Ok (d (ablock_block b))) ->
  (2 <= length (listed_blocks items))%nat ->
  exists children,
    pem_file pem_dec describe (bundle_text items tail) = Ok (Info (bs "multiple PEM blocks") [] children) /\
    length children = length (listed_blocks items) /\
    Forall2 (fun b c => forall b', ablock_block b' = ablock_block b -> block_ok b' = true ->
                          pem_file pem_dec describe (armor b') = Ok c) (listed_blocks items) children.
Proof.
  intros describe d items tail Hok Hd Hn. exists (map (fun b => d (ablock_block b)) (listed_blocks items)).
  split; [|split; [apply map_length|]].
  - rewrite (pem_file_bytes describe d items tail Hok Hd).
    destruct (listed_blocks items) as [|b1 [|b2 l]]; cbn [length] in Hn; try lia. reflexivity.
  - apply Forall2_map_r. intros b Hb b' Heq Hok'. rewrite <- Heq. apply pem_file_single_bytes; [exact Hok'| |].
    + unfold listed_blocks, listed_g in Hb. apply filter_In in Hb as [_ Hb].
      assert (E : ab_label b' = ab_label b) by (unfold ablock_block in Heq; congruence).
      rewrite E. cbn [ablock_block pb_type] in Hb. now destruct (is_pgp_type (ab_label b)).
    + rewrite Heq. now apply Hd.
Qed.

(* the loop of PEMFile with the modelled decoder terminates: the fuel is never exhausted *)
Lemma pem_dec_loop_fuel : forall describe,
  (forall f1 f2 rest, (length rest < f1)%nat -> (length rest < f2)%nat ->
     pem_loop pem_dec describe f1 rest = pem_loop pem_dec describe f2 rest) /\
  ((forall b, describe b <> Err "fuel") ->
   forall f rest, (length rest < f)%nat -> pem_loop pem_dec describe f rest <> Err "fuel").
Proof.
  intros describe. split; [exact (pem_loop_fuel pem_dec describe pem_dec_shorter)|exact (pem_loop_no_fuel_error pem_dec describe pem_dec_shorter)].
Qed.

(* non-vacuity: a bundle with leading text, a certificate-sized block in CRLF, a block with headers in lines of
   48, an empty block, PGP armor, and a last block whose END line ends the file *)
Definition example_blocks : list (bytes * ablock) :=
  [(bs "Bag Attributes" ++ [10], mkablock (bs "CERTIFICATE") [] (map N.of_nat (seq 0 100)) 64 true true);
   ([], mkablock (bs "RSA PRIVATE KEY") [bs "Proc-Type: 4,ENCRYPTED"; bs "DEK-Info: AES-128-CBC,00"] (map N.of_nat (seq 7 90)) 48 false true);
   (bs "text - with - dashes -----BEGIN" ++ [10], mkablock (bs "PGP MESSAGE") [] [3] 64 false true);
   ([10], mkablock (bs "PUBLIC KEY") [] [] 64 false true);
   ([], mkablock (bs "PRIVATE KEY") [] [48; 2; 5; 0] 0 false false)].
Lemma example_blocks_ok : bundle_text_ok example_blocks [] = true /\ length (listed_blocks example_blocks) = 4%nat.
Proof. split; vm_compute; reflexivity. Qed.
