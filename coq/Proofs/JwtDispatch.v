(* C18 / F37: in the regenerated format table the JWT row is reached before the ASN.1 rows.
   For any file name and content: if no reserved-name row and no signature row matches and the
   UUID sniffer says no, a content that IsJWT accepts is described by JWTData, whatever the
   sniffers of the later rows (IsASN1, IsBase64ASN1, IsMixedPEM) answer.
   No axioms; standard library only. *)
From WI Require Import Lib.Base Lib.Info Lib.Strings Lib.Utf8 Model.Dispatch Model.Base64 Model.Jwt.
From WI Require Proofs.Dispatch Proofs.Jwt Proofs.Base64 Model.Uuid Spec.C17 Proofs.Uuid.
From Coq Require Import List NArith Lia Bool.
From Coq Require Import ZifyN ZifyNat ZifyBool.
Import ListNotations.
Open Scope N_scope.
Local Ltac Zify.zify_post_hook ::= Z.div_mod_to_equations.

Definition is_jwt_row (r : row) : bool := bytes_eqb (r_sniffer r) (bs "IsJWT").

(* split at the first row whose sniffer is IsJWT *)
Fixpoint jwt_split (t : list row) : option (list row * row * list row) :=
  match t with
  | [] => None
  | r :: rest =>
      if is_jwt_row r then Some ([], r, rest)
      else match jwt_split rest with
           | Some (pre, x, post) => Some (r :: pre, x, post)
           | None => None
           end
  end.

(* rows that may come before it: no sniffer at all (name / signature rows), or the UUID sniffer *)
Definition early_row (r : row) : bool :=
  match r_sniffer r with [] => true | n => bytes_eqb n (bs "IsUUID") end.

Definition dispatch_ok (t : list row) : bool :=
  match jwt_split t with
  | Some (pre, r, _) => forallb early_row pre && bytes_eqb (r_parser r) (bs "JWTData")
  | None => false
  end.

Lemma dispatch_ok_now : dispatch_ok table = true.
Proof. vm_compute. reflexivity. Qed.

Lemma jwt_split_app : forall t pre r post,
  jwt_split t = Some (pre, r, post) -> t = pre ++ r :: post /\ is_jwt_row r = true.
Proof.
  induction t as [|x t IH]; intros pre r post H; [discriminate|].
  cbn [jwt_split] in H. destruct (is_jwt_row x) eqn:E.
  - injection H as <- <- <-. auto.
  - destruct (jwt_split t) as [[[pre' x'] post']|] eqn:S; [|discriminate].
    injection H as <- <- <-. destruct (IH _ _ _ eq_refl) as [-> Hr]. auto.
Qed.

Section D.
  Variable sniff : bytes -> bytes -> bool.
  Variable parse : bytes -> bytes -> result info.
  Variables name data : bytes.

  Lemma candidates_skip : forall pre rest,
    (forall r, In r pre -> row_matches sniff name data r = Ok false) ->
    candidates_in sniff (pre ++ rest) name data = candidates_in sniff rest name data.
  Proof.
    induction pre as [|r pre IH]; intros rest H; [reflexivity|].
    cbn [app candidates_in]. rewrite (H r (or_introl eq_refl)).
    rewrite IH by (intros x Hx; apply H; right; exact Hx).
    destruct (candidates_in sniff rest name data); reflexivity.
  Qed.

  Theorem jwt_reached : forall t i,
    no_wildcards t = true -> dispatch_ok t = true ->
    (forall r, In r t -> matches_name r name = Ok false) ->
    (forall r, In r t -> matches_magic r data = false) ->
    sniff (bs "IsUUID") data = false ->
    sniff (bs "IsJWT") data = true ->
    parse (bs "JWTData") data = Ok i ->
    inspect_in sniff parse t name data = Ok i.
  Proof.
    intros t i Hw Hok Hname Hmagic Huuid Hjwt Hparse.
    unfold dispatch_ok in Hok. destruct (jwt_split t) as [[[pre r] post]|] eqn:S; [|discriminate].
    apply andb_true_iff in Hok as [Hpre Hp]. apply Proofs.Jwt.bytes_eqb_eq in Hp.
    destruct (jwt_split_app _ _ _ _ S) as [E Hr]. unfold is_jwt_row in Hr.
    apply Proofs.Jwt.bytes_eqb_eq in Hr.
    assert (Hin : forall x, In x pre -> In x t) by (intros x Hx; rewrite E; apply in_or_app; left; exact Hx).
    assert (Hrin : In r t) by (rewrite E; apply in_or_app; right; left; reflexivity).
    assert (Q : forall x, In x pre -> row_matches sniff name data x = Ok false).
    { intros x Hx. unfold row_matches. rewrite (Hname x (Hin x Hx)), (Hmagic x (Hin x Hx)). cbn [orb].
      rewrite forallb_forall in Hpre. specialize (Hpre x Hx). unfold early_row in Hpre.
      unfold smells_like. destruct (r_sniffer x) as [|c n]; [reflexivity|].
      apply Proofs.Jwt.bytes_eqb_eq in Hpre. rewrite Hpre, Huuid. reflexivity. }
    assert (R : row_matches sniff name data r = Ok true).
    { unfold row_matches. rewrite (Hname r Hrin), (Hmagic r Hrin). cbn [orb].
      unfold smells_like. rewrite Hr. cbn [bs bytes_of_string]. cbn [bs bytes_of_string] in Hjwt.
      rewrite Hjwt. reflexivity. }
    destruct (Proofs.Dispatch.candidates_total sniff t post name data Hw) as [l Hl].
    { intros x Hx. rewrite E. apply in_or_app. right. right. exact Hx. }
    unfold inspect_in. rewrite E, (candidates_skip pre (r :: post) Q).
    cbn [candidates_in]. rewrite R, Hl. cbn [first_success]. rewrite Hp, Hparse. reflexivity.
  Qed.
End D.

Theorem jwt_reached_now : forall sniff parse name data i,
  (forall r, In r table -> matches_name r name = Ok false) ->
  (forall r, In r table -> matches_magic r data = false) ->
  sniff (bs "IsUUID") data = false ->
  sniff (bs "IsJWT") data = true ->
  parse (bs "JWTData") data = Ok i ->
  inspect sniff parse name data = Ok i.
Proof.
  intros. unfold inspect. apply jwt_reached; auto;
    try exact Proofs.Dispatch.table_no_wildcards; try exact dispatch_ok_now.
Qed.

(* the order before the repair of F37 (JWT after the ASN.1 rows) fails the check *)
Lemma dispatch_order_before_F37_rejected :
  dispatch_ok [mkrow [] [] (bs "IsUUID") (bs "UUIDValue"); mkrow [] [] (bs "IsASN1") (bs "ASN1File");
               mkrow [] [] (bs "IsBase64ASN1") (bs "Base64ASN1File"); mkrow [] [] (bs "IsJWT") (bs "JWTData")] = false.
Proof. vm_compute. reflexivity. Qed.

(* ====================================================================================== *)
(* C18_dispatch in full: the hypotheses about signatures and the UUID sniffer are derived  *)
(* from recognition.                                                                       *)
(* ====================================================================================== *)

(* ---- (b) a text the UUID recogniser accepts has no '.' ---------------------------------- *)
(* the bytes a text accepted by Model/Uuid.v is made of: hexadecimal digits, '-', braces, the
   letters and the colon of "urn:uuid:" (either case), and the bytes of the UTF-8 encodings of
   the white-space code points strings.TrimSpace removes *)
Definition ws_bytes : bytes := flat_map encode_rune Spec.C17.white_space.
Definition uuid_text_byte (c : N) : bool :=
  existsb (N.eqb c) ws_bytes
  || ((48 <=? c) && (c <=? 57)) || ((65 <=? c) && (c <=? 70)) || ((97 <=? c) && (c <=? 102))
  || (c =? 45) || (c =? 123) || (c =? 125)
  || existsb (N.eqb c) (bs "urn:uidURNUID").

(* the bytes of the four lower-case forms *)
Definition form_byte (d : N) : bool :=
  ((48 <=? d) && (d <=? 57)) || ((97 <=? d) && (d <=? 102))
  || (d =? 45) || (d =? 123) || (d =? 125) || existsb (N.eqb d) (bs "urn:uid").

Lemma forallb_take : forall (P : N -> bool) n l, forallb P l = true -> forallb P (take n l) = true.
Proof.
  intros P n. induction n as [|n IH]; intros [|x l] H; cbn [take forallb] in *; try reflexivity.
  apply andb_prop in H. destruct H as [A B]. rewrite A, (IH _ B). reflexivity.
Qed.
Lemma forallb_drop : forall (P : N -> bool) n l, forallb P l = true -> forallb P (drop n l) = true.
Proof.
  intros P n. induction n as [|n IH]; intros [|x l] H; cbn [drop forallb] in *; try reflexivity; try exact H.
  apply andb_prop in H. destruct H as [_ B]. exact (IH _ B).
Qed.

Lemma hex_digit_form : forall d, d < 16 -> form_byte (hex_digit false d) = true.
Proof.
  intros d H. unfold form_byte, hex_digit.
  destruct (d <? 10) eqn:E.
  - replace ((48 <=? 48 + d) && (48 + d <=? 57)) with true by lia. reflexivity.
  - replace ((48 <=? 87 + d) && (87 + d <=? 57)) with false by lia.
    replace ((97 <=? 87 + d) && (87 + d <=? 102)) with true by lia. reflexivity.
Qed.

Lemma hex_of_form : forall u, bytes_ok u = true -> forallb form_byte (hex_of false u) = true.
Proof.
  induction u as [|b u IH]; intros H; [reflexivity|].
  cbn [bytes_ok forallb] in H. apply andb_prop in H. destruct H as [Hb Hu]. unfold byte_ok in Hb.
  unfold hex_of. cbn [flat_map hex_byte app forallb].
  rewrite !hex_digit_form by lia. cbn [andb]. exact (IH Hu).
Qed.

Lemma canon_form : forall u, bytes_ok u = true -> forallb form_byte (Model.Uuid.canon u) = true.
Proof.
  intros u H. pose proof (hex_of_form u H) as Hh. unfold Model.Uuid.canon. cbv zeta.
  rewrite !forallb_app.
  rewrite !forallb_take by (try apply forallb_drop; exact Hh).
  rewrite forallb_drop by exact Hh. reflexivity.
Qed.

Lemma form_bytes : forall f u, Model.Uuid.uuid_ok u = true -> forallb form_byte (Model.Uuid.form f u) = true.
Proof.
  intros f u H. unfold Model.Uuid.uuid_ok in H. apply andb_prop in H. destruct H as [_ H].
  destruct f; cbn [Model.Uuid.form].
  - apply canon_form; exact H.
  - rewrite !forallb_app, canon_form by exact H. reflexivity.
  - rewrite forallb_app, canon_form by exact H. reflexivity.
  - apply hex_of_form; exact H.
Qed.

(* bytes below 256 by an exhaustive sweep, larger numbers because no form byte is that large *)
Definition byte_range : list N := map N.of_nat (seq 0 256).
Lemma byte_range_in : forall c, c < 256 -> In c byte_range.
Proof.
  intros c H. unfold byte_range. apply in_map_iff. exists (N.to_nat c). split; [apply N2Nat.id|].
  apply in_seq. lia.
Qed.
Lemma lower_form_byte_sweep :
  forallb (fun c => implb (form_byte (to_lower_ascii c)) (uuid_text_byte c)) byte_range = true.
Proof. vm_compute. reflexivity. Qed.
Lemma form_byte_small : forall d, 256 <= d -> form_byte d = false.
Proof.
  intros d H. unfold form_byte.
  assert (Hle : forall k, k < 256 -> (d <=? k) = false) by (intros k Hk; apply N.leb_gt; lia).
  assert (Heq : forall k, k < 256 -> (d =? k) = false) by (intros k Hk; apply N.eqb_neq; lia).
  cbn [bs bytes_of_string existsb N_of_ascii]. cbn.
  rewrite !Hle, !Heq by lia. rewrite !andb_false_r. reflexivity.
Qed.
Lemma lower_form_byte : forall c, form_byte (to_lower_ascii c) = true -> uuid_text_byte c = true.
Proof.
  intros c H. destruct (N.lt_ge_cases c 256) as [L|G].
  - pose proof (proj1 (forallb_forall _ _) lower_form_byte_sweep c (byte_range_in c L)) as S.
    cbn beta in S. rewrite H in S. exact S.
  - unfold to_lower_ascii in H. replace ((65 <=? c) && (c <=? 90)) with false in H
      by (symmetry; apply andb_false_iff; right; apply N.leb_gt; lia).
    rewrite (form_byte_small c G) in H. discriminate H.
Qed.

Lemma ws_run_bytes : forall cps, Forall Proofs.Uuid.is_ws cps ->
  forallb uuid_text_byte (flat_map encode_rune cps) = true.
Proof.
  intros cps H. apply forallb_forall. intros c Hc. apply in_flat_map in Hc. destruct Hc as (x & Hx & Hc).
  rewrite Forall_forall in H. specialize (H x Hx). unfold Proofs.Uuid.is_ws in H.
  unfold uuid_text_byte. replace (existsb (N.eqb c) ws_bytes) with true; [reflexivity|].
  symmetry. apply existsb_exists. exists c. split; [|apply N.eqb_refl].
  unfold ws_bytes. apply in_flat_map. exists x. split; assumption.
Qed.

(* every text Model/Uuid.v accepts consists of those bytes only *)
Theorem uuid_text_bytes : forall s, Model.Uuid.is_uuid s = true -> forallb uuid_text_byte s = true.
Proof.
  intros s H. destruct (Proofs.Uuid.accepted_text_shape s H) as (u & f & t & c1 & c2 & Hu & Hm & H1 & H2 & ->).
  rewrite !forallb_app, (ws_run_bytes _ H1), (ws_run_bytes _ H2). rewrite andb_true_r. cbn [andb].
  unfold Model.Uuid.same_up_to_case in Hm. pose proof (form_bytes f u Hu) as Hf. rewrite <- Hm in Hf.
  apply forallb_forall. intros c Hc. apply lower_form_byte.
  rewrite forallb_forall in Hf. apply Hf. apply in_map. exact Hc.
Qed.

Lemma dot_not_uuid_byte : uuid_text_byte dot = false.
Proof. vm_compute. reflexivity. Qed.

Corollary dotted_not_uuid : forall s, In dot s -> Model.Uuid.is_uuid s = false.
Proof.
  intros s Hin. destruct (Model.Uuid.is_uuid s) eqn:E; [|reflexivity].
  pose proof (uuid_text_bytes s E) as H. rewrite forallb_forall in H. specialize (H dot Hin).
  rewrite dot_not_uuid_byte in H. discriminate H.
Qed.

(* ---- (a) no signature of the table is a prefix of a token ------------------------------- *)
(* what encoding/json is assumed to do: only a text whose first byte is '{' or JSON white space
   decodes into a map (every theorem below that names it takes it as a hypothesis on J) *)
Definition J_object_start (J : bytes -> jres) : Prop :=
  forall b, is_object (J b) = true -> exists c r, b = c :: r /\ json_start c = true.

(* the first two base64 characters determine the first decoded byte *)
Definition head_pair_ok (a b : N) : bool :=
  existsb (fun u => match b64val u a, b64val u b with
                    | Some x, Some y => json_start (x * 4 + y / 16)
                    | _, _ => false
                    end) [true; false].

Lemma q3_first : forall x y z w, y < 64 -> z < 64 -> w < 64 ->
  exists r, q3 x y z w = (x * 4 + y / 16) :: r.
Proof. intros x y z w Hy Hz Hw. unfold q3. cbv zeta. eexists. f_equal. lia. Qed.

Lemma core_head : forall f u p t c r, core f u p t = Some (c :: r) ->
  exists a b t' x y, t = a :: b :: t' /\ b64val u a = Some x /\ b64val u b = Some y /\ c = x * 4 + y / 16.
Proof.
  intros f u p t c r H. destruct f as [|f]; [discriminate|].
  destruct t as [|a [|b [|c' [|d t']]]]; cbn [core] in H; try discriminate.
  - destruct p; [discriminate|].
    destruct (b64val u a) as [x|] eqn:Ea; [|discriminate]. destruct (b64val u b) as [y|] eqn:Eb; [|discriminate].
    pose proof (Proofs.Jwt.b64val_lt64 _ _ _ Eb). destruct (q3_first x y 0 0) as [q Hq]; try lia.
    unfold q1 in H. rewrite Hq in H. cbn [take] in H. injection H as <- _.
    exists a, b, [], x, y. auto.
  - destruct p; [discriminate|].
    destruct (b64val u a) as [x|] eqn:Ea; [|discriminate]. destruct (b64val u b) as [y|] eqn:Eb; [|discriminate].
    destruct (b64val u c') as [z|] eqn:Ec; [|discriminate].
    pose proof (Proofs.Jwt.b64val_lt64 _ _ _ Eb). pose proof (Proofs.Jwt.b64val_lt64 _ _ _ Ec).
    destruct (q3_first x y z 0) as [q Hq]; try lia.
    unfold q2 in H. rewrite Hq in H. cbn [take] in H. injection H as <- _.
    exists a, b, [c'], x, y. auto.
  - destruct (b64val u a) as [x|] eqn:Ea; [|discriminate]. destruct (b64val u b) as [y|] eqn:Eb; [|discriminate].
    pose proof (Proofs.Jwt.b64val_lt64 _ _ _ Eb).
    exists a, b, (c' :: d :: t'), x, y. split; [reflexivity|]. split; [exact Ea|]. split; [exact Eb|].
    destruct (b64val u c') as [z|] eqn:Ec.
    + pose proof (Proofs.Jwt.b64val_lt64 _ _ _ Ec).
      destruct (b64val u d) as [w|] eqn:Ed.
      * pose proof (Proofs.Jwt.b64val_lt64 _ _ _ Ed).
        destruct (core f u p t') as [rest|]; [|discriminate].
        destruct (q3_first x y z w) as [q Hq]; try lia. rewrite Hq in H. cbn [app] in H. injection H as <- _. reflexivity.
      * destruct (p && (d =? 61)); [|discriminate]. destruct t'; [|discriminate].
        destruct (q3_first x y z 0) as [q Hq]; try lia. unfold q2 in H. rewrite Hq in H. cbn [take] in H.
        injection H as <- _. reflexivity.
    + destruct (p && (c' =? 61) && (d =? 61)); [|discriminate]. destruct t'; [|discriminate].
      destruct (q3_first x y 0 0) as [q Hq]; try lia. unfold q1 in H. rewrite Hq in H. cbn [take] in H.
      injection H as <- _. reflexivity.
Qed.

Lemma strip_head : forall s a t, strip_nl s = a :: t ->
  exists n s', s = n ++ a :: s' /\ forallb is_nl n = true /\ strip_nl s' = t.
Proof.
  induction s as [|c s IH]; intros a t H; [discriminate|].
  unfold strip_nl in H. cbn [filter] in H. destruct (is_nl c) eqn:E; cbn [negb] in H.
  - destruct (IH a t H) as (n & s' & -> & Hn & Ht). exists (c :: n), s'. cbn [app forallb]. rewrite E, Hn. auto.
  - injection H as <- <-. exists [], s. auto.
Qed.

Lemma b64val_not_nl : forall u c v, b64val u c = Some v -> is_nl c = false /\ c < 256.
Proof.
  intros u c v. unfold b64val, is_nl.
  destruct ((65 <=? c) && (c <=? 90)) eqn:A; [intros _; lia|].
  destruct ((97 <=? c) && (c <=? 122)) eqn:B; [intros _; lia|].
  destruct ((48 <=? c) && (c <=? 57)) eqn:C; [intros _; lia|].
  destruct u; destruct (c =? 45) eqn:E1, (c =? 95) eqn:E2, (c =? 43) eqn:E3, (c =? 47) eqn:E4; intros H;
    try discriminate; lia.
Qed.

Lemma head_pair_chars : forall a b, head_pair_ok a b = true ->
  is_nl a = false /\ is_nl b = false /\ b < 256.
Proof.
  intros a b H. unfold head_pair_ok in H. cbn [existsb] in H. rewrite orb_false_r in H.
  apply orb_true_iff in H.
  destruct H as [H|H];
    [destruct (b64val true a) eqn:Ea; [|discriminate]; destruct (b64val true b) eqn:Eb; [|discriminate]
    |destruct (b64val false a) eqn:Ea; [|discriminate]; destruct (b64val false b) eqn:Eb; [|discriminate]];
    destruct (b64val_not_nl _ _ _ Ea); destruct (b64val_not_nl _ _ _ Eb); auto.
Qed.

(* the shape of the beginning of a token: line ends, a base64 character, line ends, a second
   base64 character, such that the first decoded byte is '{' or JSON white space *)
Definition token_head (tok : bytes) : Prop :=
  exists n1 a n2 b rest, tok = n1 ++ a :: n2 ++ b :: rest /\
    forallb is_nl n1 = true /\ forallb is_nl n2 = true /\ head_pair_ok a b = true.

Lemma jwt_token_head : forall J tok, J_object_start J -> is_jwt J tok = true -> token_head tok.
Proof.
  intros J tok HJ H. apply Proofs.Jwt.recognised_iff in H.
  destruct H as (h & p & g & -> & _ & _ & _ & (hb & Hd & Ho) & _ & _).
  destruct (HJ hb Ho) as (c & r & -> & Hc).
  destruct (Proofs.Base64.decode_any_sound _ _ Hd) as [e He]. unfold std_decode in He.
  destruct (core_head _ _ _ _ _ _ He) as (a & b & t' & x & y & Ht & Ea & Eb & ->).
  destruct (strip_head _ _ _ Ht) as (n1 & s1 & -> & Hn1 & Hs1).
  destruct (strip_head _ _ _ Hs1) as (n2 & s2 & -> & Hn2 & _).
  exists n1, a, n2, b, (s2 ++ dot :: p ++ dot :: g). repeat split; try assumption.
  - rewrite <- !app_assoc. cbn [app]. rewrite <- !app_assoc. reflexivity.
  - unfold head_pair_ok. cbn [existsb]. destruct (enc_url e); rewrite Ea, Eb, Hc; [reflexivity | apply orb_true_r].
Qed.

Fixpoint skip_nl (m : bytes) : bytes :=
  match m with
  | c :: r => if is_nl c then skip_nl r else m
  | [] => []
  end.

(* a signature that cannot be the beginning of a token: after line ends its first two characters
   are not a possible pair (a one-character signature: not a possible first character) *)
Definition magic_clear (m : bytes) : bool :=
  match skip_nl m with
  | [] => false
  | a :: m1 =>
      match skip_nl m1 with
      | [] => negb (existsb (head_pair_ok a) (Proofs.Base64.range 256))
      | b :: _ => negb (head_pair_ok a b)
      end
  end.

Lemma prefix_skip : forall n m rest, forallb is_nl n = true -> prefix_of m (n ++ rest) = true ->
  skip_nl m = [] \/ exists m', skip_nl m = skip_nl m' /\ prefix_of m' rest = true.
Proof.
  induction n as [|c n IH]; intros m rest Hn Hp.
  - right. exists m. auto.
  - cbn [forallb] in Hn. apply andb_prop in Hn. destruct Hn as [Hc Hn].
    destruct m as [|c' m]; [left; reflexivity|].
    cbn [app prefix_of] in Hp. apply andb_prop in Hp. destruct Hp as [E Hp]. apply N.eqb_eq in E. subst c'.
    cbn [skip_nl]. rewrite Hc. exact (IH m rest Hn Hp).
Qed.

Lemma clear_not_prefix : forall m tok, token_head tok -> magic_clear m = true -> prefix_of m tok = false.
Proof.
  intros m tok (n1 & a & n2 & b & rest & -> & Hn1 & Hn2 & Hab) Hc.
  destruct (prefix_of m (n1 ++ a :: n2 ++ b :: rest)) eqn:Hp; [|reflexivity]. exfalso.
  destruct (head_pair_chars a b Hab) as (Na & Nb & Lb).
  assert (Hex : existsb (head_pair_ok a) (Proofs.Base64.range 256) = true).
  { apply existsb_exists. exists b. split; [apply Proofs.Base64.in_range; exact Lb | exact Hab]. }
  unfold magic_clear in Hc.
  destruct (prefix_skip n1 m _ Hn1 Hp) as [E | (m' & E & Hp')]; [rewrite E in Hc; discriminate|].
  rewrite E in Hc. clear E Hp.
  destruct m' as [|a' m1]; [discriminate Hc|].
  cbn [prefix_of] in Hp'. apply andb_prop in Hp'. destruct Hp' as [Ea Hp1]. apply N.eqb_eq in Ea. subst a'.
  cbn [skip_nl] in Hc. rewrite Na in Hc.
  destruct (prefix_skip n2 m1 _ Hn2 Hp1) as [E | (m2 & E & Hp2)].
  - rewrite E, Hex in Hc. discriminate.
  - rewrite E in Hc. destruct m2 as [|b' m3].
    + cbn [skip_nl] in Hc. rewrite Hex in Hc. discriminate.
    + cbn [prefix_of] in Hp2. apply andb_prop in Hp2. destruct Hp2 as [Eb _]. apply N.eqb_eq in Eb. subst b'.
      cbn [skip_nl] in Hc. rewrite Nb, Hab in Hc. discriminate.
Qed.

Definition magics_clear (t : list row) : bool := forallb (fun r => forallb magic_clear (r_magics r)) t.

(* T1: every signature of the regenerated table *)
Lemma magics_clear_now : magics_clear table = true.
Proof. vm_compute. reflexivity. Qed.

Lemma no_magic_matches : forall t tok, magics_clear t = true -> token_head tok ->
  forall r, In r t -> matches_magic r tok = false.
Proof.
  intros t tok Ht Hh r Hr. unfold magics_clear in Ht. rewrite forallb_forall in Ht. specialize (Ht r Hr).
  unfold matches_magic. destruct (existsb (fun m => prefix_of m tok) (r_magics r)) eqn:E; [|reflexivity].
  apply existsb_exists in E. destruct E as (m & Hm & Hp).
  rewrite forallb_forall in Ht. rewrite (clear_not_prefix m tok Hh (Ht m Hm)) in Hp. discriminate.
Qed.

(* ---- the dispatch theorem ---------------------------------------------------------------- *)
Lemma jwt_has_dot : forall J tok, is_jwt J tok = true -> In dot tok.
Proof.
  intros J tok H. apply Proofs.Jwt.recognised_iff in H. destruct H as (h & p & g & -> & _).
  apply in_or_app. right. left. reflexivity.
Qed.

Theorem jwt_dispatch : forall J other_sniff other_parse name tok,
  J_object_start J ->
  (forall r, In r table -> matches_name r name = Ok false) ->
  is_jwt J tok = true ->
  exists j, parse_jwt J tok = Ok j /\
            inspect_jwt J other_sniff other_parse name tok = Ok (describe_jwt j).
Proof.
  intros J os op name tok HJ Hname Hjwt.
  assert (Hd : is_ok (jwt_data J tok) = true) by (rewrite Proofs.Jwt.described_iff_recognised; exact Hjwt).
  destruct (jwt_data J tok) as [i| |] eqn:Ei; try discriminate Hd.
  destruct (proj1 (Proofs.Jwt.jwt_data_ok_iff J tok i) Ei) as (j & Hj & ->).
  exists j. split; [exact Hj|].
  unfold inspect_jwt. apply jwt_reached_now.
  - exact Hname.
  - apply (no_magic_matches table tok magics_clear_now (jwt_token_head J tok HJ Hjwt)).
  - unfold jwt_sniff, jwt_sniff_with. cbn. apply dotted_not_uuid. exact (jwt_has_dot J tok Hjwt).
  - unfold jwt_sniff, jwt_sniff_with. cbn. exact Hjwt.
  - unfold jwt_parse. cbn. exact Ei.
Qed.

(* ---- the short cut the case runner takes changes nothing ---------------------------------- *)
Lemma is_uuid_quick_eq : forall d, is_uuid_quick d = Model.Uuid.is_uuid d.
Proof.
  intros d. unfold is_uuid_quick. destruct (existsb (N.eqb dot) d) eqn:E; [|reflexivity].
  apply existsb_exists in E. destruct E as (x & Hx & Ex). apply N.eqb_eq in Ex. subst x.
  symmetry. apply dotted_not_uuid. exact Hx.
Qed.

Lemma candidates_ext : forall s1 s2 name data, (forall n, s1 n data = s2 n data) ->
  forall t, candidates_in s1 t name data = candidates_in s2 t name data.
Proof.
  intros s1 s2 name data H. induction t as [|r t IH]; [reflexivity|].
  cbn [candidates_in]. rewrite IH.
  replace (row_matches s1 name data r) with (row_matches s2 name data r); [reflexivity|].
  unfold row_matches, smells_like. destruct (r_sniffer r); [reflexivity|]. rewrite H. reflexivity.
Qed.

Theorem inspect_quick_eq : forall J os op name data,
  inspect_jwt_quick J os op name data = inspect_jwt J os op name data.
Proof.
  intros. unfold inspect_jwt_quick, inspect_jwt, inspect, inspect_in.
  rewrite (candidates_ext (jwt_sniff_with is_uuid_quick J os) (jwt_sniff J os) name data); [reflexivity|].
  intros n. unfold jwt_sniff, jwt_sniff_with. rewrite is_uuid_quick_eq. reflexivity.
Qed.
