(* Case runner and spec checker (T3) for C08 — stub. *)
From WI Require Import Lib.Base Lib.Info Model.Cost.
Definition run_C08 (op : bytes) (input : arg) : arg := AL [].
Definition check_C08 (op : bytes) (input impl : arg) : arg := AL [].
