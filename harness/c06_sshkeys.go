package main

// C06, SSH entries whose key blob is parsed and described by the MODEL (Model/ContainersSsh.v key_of_model = C02's
// model of ssh.ParsePublicKey + the attribute builder), not answered by a recorded call.
//
//   keyblob : (blob blobs) / obs of ssh.ParsePublicKey + attribute builder on the decoded blob: (0 (type ((name value)...))) | (1) | (2)
//       blobs = the row of that blob as c06Blobs writes it: (blob obs [(curve point ok)])
//
// The blobs are written here field by field (RFC 4253 6.6, RFC 5656 3.1, RFC 8709 4, PROTOCOL.u2f, PROTOCOL.certkeys),
// not by the library: ssh-rsa (moduli of 512..4096 bits and odd sizes, exponents 3, 17, 65537, 2^24-1), ssh-dss,
// ecdsa-sha2-nistp256/384/521 (points computed with crypto/elliptic), ssh-ed25519, sk-ssh-ed25519@openssh.com,
// sk-ecdsa-sha2-nistp256@openssh.com, certificates (ed25519 and rsa subject keys), unknown algorithm names; and
// malformed: cut at and inside every field, trailing octets, the algorithm name of another key type, length fields
// changed, exponents the library refuses, DSA sizes other than 1024, points off the curve / compressed / at
// infinity, inner curve name different from the algorithm name, 31 / 33 octet Ed25519 keys.
// Every blob goes through: op keyblob; one authorized_keys line and one known_hosts line (op sshline) with
// comments, options, markers, hashed hosts - also with a key type field that names another algorithm (the line
// parsers ignore that field); and files of 2..6 such entries (ops akeys / khosts: well-formed blobs with a layout
// and the spec checker, malformed ones model = implementation only).
// The kind of EVERY SSH case (also those of c06.go) ends in +kmodel (every key blob of the case is computed by the model
// from its bytes) or +koracle (at least one blob of the case is of an algorithm C02's model does not cover and comes
// from the recorded answer): c06KTagRows.

import (
	"bytes"
	"crypto/ed25519"
	"crypto/elliptic"
	"crypto/rsa"
	"encoding/base64"
	"encoding/binary"
	"math/big"
	"strings"

	"golang.org/x/crypto/ssh"

	"github.com/edutko/decipher/internal/file"
)

func c06WireString(w *bytes.Buffer, b []byte) {
	binary.Write(w, binary.BigEndian, uint32(len(b)))
	w.Write(b)
}

// mpint of RFC 4251 for n >= 0
func c06Mpint(n *big.Int) []byte {
	b := n.Bytes()
	if len(b) > 0 && b[0]&0x80 != 0 {
		b = append([]byte{0}, b...)
	}
	return b
}

func c06Blob(fields ...[]byte) []byte {
	var w bytes.Buffer
	for _, f := range fields {
		c06WireString(&w, f)
	}
	return w.Bytes()
}

// a number of exactly `bits` bits, odd
func c06OddBits(r *Rng, bits int) *big.Int {
	b := r.Bytes((bits + 7) / 8)
	n := new(big.Int).SetBytes(b)
	n.SetBit(n, bits-1, 1)
	for i := bits; i < len(b)*8; i++ {
		n.SetBit(n, i, 0)
	}
	n.SetBit(n, 0, 1)
	return n
}

type c06Key struct {
	name    string   // generator's label
	typ     string   // the key type field to write in a line
	fields  [][]byte // the wire strings of the blob
	modeled bool     // the model computes it (rsa, dss, ecdsa, ed25519); false: recorded answer
	valid   bool     // the library is expected to accept it
	extra   []byte   // octets after the last field
}

func (k c06Key) blob() []byte { return append(c06Blob(k.fields...), k.extra...) }
func (k c06Key) b64() string  { return base64.StdEncoding.EncodeToString(k.blob()) }

func c06CurveByName(n string) elliptic.Curve {
	switch n {
	case "nistp256":
		return elliptic.P256()
	case "nistp384":
		return elliptic.P384()
	case "nistp521":
		return elliptic.P521()
	}
	return nil
}

func c06Point(r *Rng, curve string) []byte {
	cv := c06CurveByName(curve)
	k := r.Bytes(24)
	k[0] |= 1
	x, y := cv.ScalarBaseMult(k)
	return elliptic.Marshal(cv, x, y)
}

// c06GoodKeys: well-formed keys of every algorithm
func c06GoodKeys(r *Rng) []c06Key {
	var ks []c06Key
	es := []int64{3, 17, 65537, 1<<24 - 1}
	for i, bits := range []int{512, 1023, 1024, 2047, 2048, 3072, 4096, 1537} {
		n := c06OddBits(r, bits)
		e := big.NewInt(es[i%len(es)])
		ks = append(ks, c06Key{name: "rsa", typ: "ssh-rsa", fields: [][]byte{[]byte("ssh-rsa"), c06Mpint(e), c06Mpint(n)}, modeled: true, valid: true})
	}
	for i := 0; i < 2; i++ {
		p := c06OddBits(r, 1024)
		q := c06OddBits(r, 160)
		g := c06OddBits(r, 1000+r.Intn(24))
		y := c06OddBits(r, 900+r.Intn(124))
		ks = append(ks, c06Key{name: "dss", typ: "ssh-dss", fields: [][]byte{[]byte("ssh-dss"), c06Mpint(p), c06Mpint(q), c06Mpint(g), c06Mpint(y)}, modeled: true, valid: true})
	}
	for _, cv := range []string{"nistp256", "nistp384", "nistp521"} {
		ks = append(ks, c06Key{name: "ecdsa", typ: "ecdsa-sha2-" + cv, fields: [][]byte{[]byte("ecdsa-sha2-" + cv), []byte(cv), c06Point(r, cv)}, modeled: true, valid: true})
	}
	for i := 0; i < 2; i++ {
		ks = append(ks, c06Key{name: "ed25519", typ: "ssh-ed25519", fields: [][]byte{[]byte("ssh-ed25519"), r.Bytes(32)}, modeled: true, valid: true})
	}
	// algorithms C02's model does not cover: the recorded answer is used
	ks = append(ks, c06Key{name: "sk-ed25519", typ: "sk-ssh-ed25519@openssh.com", fields: [][]byte{[]byte("sk-ssh-ed25519@openssh.com"), r.Bytes(32), []byte("ssh:")}, valid: true})
	ks = append(ks, c06Key{name: "sk-ecdsa", typ: "sk-ecdsa-sha2-nistp256@openssh.com", fields: [][]byte{[]byte("sk-ecdsa-sha2-nistp256@openssh.com"), []byte("nistp256"), c06Point(r, "nistp256"), []byte("ssh:")}, valid: true})
	priv := ed25519.NewKeyFromSeed(r.Bytes(32))
	signer, _ := ssh.NewSignerFromKey(priv)
	edpub, _ := ssh.NewPublicKey(priv.Public())
	rsapub, _ := ssh.NewPublicKey(&rsa.PublicKey{N: c06OddBits(r, 2048), E: 65537})
	for i, sub := range []ssh.PublicKey{edpub, rsapub} {
		cert := &ssh.Certificate{Key: sub, Serial: uint64(11 + i), CertType: []uint32{ssh.HostCert, ssh.UserCert}[i], KeyId: "id" + string(rune('0'+i)),
			ValidPrincipals: []string{"example.org"}, ValidBefore: ssh.CertTimeInfinity}
		if err := cert.SignCert(NewRng(r.U64()), signer); err == nil { // ed25519 signatures are deterministic
			ks = append(ks, c06Key{name: "cert", typ: cert.Type(), fields: nil, extra: cert.Marshal(), valid: true})
		}
	}
	return ks
}

// c06BadKeys: malformed blobs made from the good ones, each named after what was done
func c06BadKeys(r *Rng, good []c06Key) []c06Key {
	var ks []c06Key
	bad := func(name string, k c06Key, fields [][]byte, extra []byte) {
		ks = append(ks, c06Key{name: name, typ: k.typ, fields: fields, extra: extra, modeled: k.modeled, valid: false})
	}
	raw := func(name string, k c06Key, b []byte) { bad(name, k, nil, b) }
	seen := map[string]bool{}
	for _, k := range good {
		if k.fields == nil {
			// a certificate: cut and extended only
			b := k.blob()
			raw("cert-cut", k, b[:len(b)/2])
			raw("cert-trailing", k, append(append([]byte{}, b...), 0))
			continue
		}
		if seen[k.name] && r.Intn(3) != 0 { // every algorithm fully once, then a sample
			continue
		}
		seen[k.name] = true
		b := k.blob()
		// truncated one field at a time: at every field boundary, inside the length word, inside the field
		off := 0
		for _, f := range k.fields {
			raw("cut-boundary", k, b[:off])
			raw("cut-length", k, b[:off+2])
			if len(f) > 0 {
				raw("cut-inside", k, b[:off+4+len(f)/2])
				raw("cut-last-octet", k, b[:off+4+len(f)-1])
			}
			off += 4 + len(f)
		}
		// trailing octets
		bad("trailing", k, k.fields, []byte{0})
		bad("trailing", k, k.fields, []byte{0, 0, 0, 0})
		bad("trailing", k, k.fields, c06Blob([]byte("x")))
		// the algorithm name of another key type in front of these fields
		for _, other := range []string{"ssh-rsa", "ssh-dss", "ssh-ed25519", "ecdsa-sha2-nistp256", "ecdsa-sha2-nistp521", "ssh-ed448", "ssh-rsa-cert-v01@openssh.com", "", "SSH-RSA", "ssh-rsa "} {
			if other != string(k.fields[0]) {
				fs := append([][]byte{[]byte(other)}, k.fields[1:]...)
				bad("wrong-algo", k, fs, nil)
			}
		}
		// a length field changed
		for i := range k.fields {
			off := 0
			for j := 0; j < i; j++ {
				off += 4 + len(k.fields[j])
			}
			for _, d := range []int{-1, 1} {
				m := append([]byte{}, b...)
				binary.BigEndian.PutUint32(m[off:], uint32(len(k.fields[i])+d))
				raw("length-changed", k, m)
			}
			m := append([]byte{}, b...)
			copy(m[off:], []byte{0xff, 0xff, 0xff, 0xff})
			raw("length-huge", k, m)
		}
	}
	first := func(name string) c06Key {
		for _, k := range good {
			if k.name == name {
				return k
			}
		}
		return good[0]
	}
	// ssh-rsa: exponents and moduli the library looks at
	rk := first("rsa")
	for _, e := range [][]byte{{}, {0}, {1}, {2}, {4}, {1, 0, 0}, {0, 0xff, 0xff, 0xff}, {1, 0, 0, 1}, {0, 1, 0, 1}, {0xff}, {0xff, 0xff, 0xfd}, {0x80, 0, 1}, {0, 0, 0, 0, 3}} {
		ks = append(ks, c06Key{name: "rsa-exponent", typ: "ssh-rsa", fields: [][]byte{rk.fields[0], e, rk.fields[2]}, modeled: true})
	}
	for _, n := range [][]byte{{}, {0}, {1}, {0xff}, {0x80, 0, 0, 1}, {0, 0, 0, 0x80, 1}, append([]byte{0, 0}, rk.fields[2]...), rk.fields[2][1:]} {
		ks = append(ks, c06Key{name: "rsa-modulus", typ: "ssh-rsa", fields: [][]byte{rk.fields[0], rk.fields[1], n}, modeled: true})
	}
	// ssh-dss: sizes other than 1024 bits, a negative p
	dk := first("dss")
	for _, bits := range []int{1023, 1025, 512, 2048} {
		ks = append(ks, c06Key{name: "dss-size", typ: "ssh-dss", fields: [][]byte{dk.fields[0], c06Mpint(c06OddBits(r, bits)), dk.fields[2], dk.fields[3], dk.fields[4]}, modeled: true})
	}
	ks = append(ks, c06Key{name: "dss-size", typ: "ssh-dss", fields: [][]byte{dk.fields[0], dk.fields[1][1:], dk.fields[2], dk.fields[3], dk.fields[4]}, modeled: true})
	ks = append(ks, c06Key{name: "dss-size", typ: "ssh-dss", fields: [][]byte{dk.fields[0], append([]byte{0}, dk.fields[1]...), {}, {}, {}}, modeled: true})
	// ecdsa: inner curve name against the algorithm name, points the library refuses
	for _, alg := range []string{"nistp256", "nistp384", "nistp521"} {
		for _, inner := range []string{"nistp256", "nistp384", "nistp521", "nistp224", "", "NISTP256", "secp256k1"} {
			if alg == inner {
				continue
			}
			pc := inner
			if c06CurveByName(pc) == nil {
				pc = alg
			}
			ks = append(ks, c06Key{name: "ecdsa-curve", typ: "ecdsa-sha2-" + alg, fields: [][]byte{[]byte("ecdsa-sha2-" + alg), []byte(inner), c06Point(r, pc)}, modeled: true})
		}
		pt := c06Point(r, alg)
		flip := append([]byte{}, pt...)
		flip[len(flip)-1] ^= 1
		comp := append([]byte{2 + pt[len(pt)-1]&1}, pt[1:1+(len(pt)-1)/2]...)
		for _, p := range [][]byte{flip, comp, {0}, {}, {4}, pt[:len(pt)-1], append(append([]byte{}, pt...), 0), append([]byte{6}, pt[1:]...)} {
			ks = append(ks, c06Key{name: "ecdsa-point", typ: "ecdsa-sha2-" + alg, fields: [][]byte{[]byte("ecdsa-sha2-" + alg), []byte(alg), p}, modeled: true})
		}
	}
	// ssh-ed25519: sizes
	for _, n := range []int{0, 1, 31, 33, 64} {
		ks = append(ks, c06Key{name: "ed25519-size", typ: "ssh-ed25519", fields: [][]byte{[]byte("ssh-ed25519"), r.Bytes(n)}, modeled: true})
	}
	// unknown algorithm names, nothing at all
	ks = append(ks, c06Key{name: "unknown-algo", typ: "ssh-ed448", fields: [][]byte{[]byte("ssh-ed448"), r.Bytes(57)}})
	ks = append(ks, c06Key{name: "unknown-algo", typ: "ssh-xmss@openssh.com", fields: [][]byte{[]byte("ssh-xmss@openssh.com"), r.Bytes(8)}})
	ks = append(ks, c06Key{name: "empty", typ: "ssh-rsa", fields: nil, extra: []byte{0, 0, 0}, modeled: true})
	ks = append(ks, c06Key{name: "empty", typ: "ssh-rsa", fields: nil, extra: []byte{0, 0, 0, 0}, modeled: false})
	return ks
}

// is the key of this blob computed by the model (Model/ContainersSsh.v key_is_modelled)?
func c06BlobModelled(blob []byte) bool {
	if len(blob) < 4 {
		return true
	}
	l := int(binary.BigEndian.Uint32(blob))
	if l > len(blob)-4 {
		return true
	}
	switch string(blob[4 : 4+l]) {
	case "ssh-rsa", "ssh-dss", "ssh-ed25519", "ecdsa-sha2-nistp256", "ecdsa-sha2-nistp384", "ecdsa-sha2-nistp521":
		return true
	}
	return false
}

func c06KTag(modelled bool) string {
	if modelled {
		return "+kmodel"
	}
	return "+koracle"
}

// c06ECPointRow: for an ecdsa-sha2-* blob whose curve and point strings can be read, elliptic.Unmarshal's verdict
// as x/crypto/ssh parseECDSA asks for it: (curve point ok); nil otherwise
func c06ECPointRow(blob []byte) Sx {
	rd := func(b []byte) ([]byte, []byte, bool) {
		if len(b) < 4 {
			return nil, nil, false
		}
		l := binary.BigEndian.Uint32(b)
		if uint64(l) > uint64(len(b)-4) {
			return nil, nil, false
		}
		return b[4 : 4+l], b[4+l:], true
	}
	algo, rest, ok := rd(blob)
	if !ok || !strings.HasPrefix(string(algo), "ecdsa-sha2-nistp") {
		return nil
	}
	curve, rest, ok := rd(rest)
	if !ok {
		return nil
	}
	pt, _, ok := rd(rest)
	if !ok {
		return nil
	}
	cv := c06CurveByName(string(curve))
	if cv == nil {
		return nil
	}
	good := false
	func() {
		defer func() { recover() }()
		x, y := elliptic.Unmarshal(cv, pt)
		good = x != nil && y != nil
	}()
	return SL{SB(append([]byte{}, curve...)), SB(append([]byte{}, pt...)), Bool(good)}
}

func c06RowIs(x Sx, blob []byte) bool {
	b, ok := x.(SB)
	return ok && bytes.Equal(b, blob)
}

// c06KTagRows: the suffix of a case's kind - are all key blobs of the case (rows of c06Blobs) computed by the model?
func c06KTagRows(rows SL) string {
	all := true
	for _, row := range rows {
		if r, ok := row.(SL); ok && len(r) > 0 {
			if b, ok := r[0].(SB); ok {
				all = all && c06BlobModelled(b)
			}
		}
	}
	return c06KTag(all)
}

func c06KeyblobCase(c *Ctx, tag string, blob []byte) {
	b64 := base64.StdEncoding.EncodeToString(blob)
	rows := SL{}
	for _, row := range c06Blobs([]byte(b64)) {
		if r, ok := row.(SL); ok && len(r) > 0 && c06RowIs(r[0], blob) {
			rows = append(rows, row)
		}
	}
	obs := guard(func() Sx {
		typ, attrs, err := file.VerifSSHKeyBlobAttrs(blob)
		if err != nil {
			return ObsErr()
		}
		l := SL{}
		for _, a := range attrs {
			l = append(l, SL{S(a.Name), S(a.Value)})
		}
		return ObsOk(SL{S(typ), l})
	})
	c.Emit("keyblob:"+tag+c06KTag(c06BlobModelled(blob)), SL{SB(blob), rows}, obs)
}

func genC06SSHKeys(c *Ctx) {
	r := c.R
	good := c06GoodKeys(r)
	bad := c06BadKeys(r, good)
	if !c.Thorough() {
		// quick tier: the boundary lists (exponents, moduli, sizes, curves, points) always whole; of the generic damage
		// (cuts, trailing octets, other algorithm names, length fields) six per kind and algorithm always, the rest sampled
		var keep []c06Key
		seen := map[string]int{}
		for _, k := range bad {
			id := k.name + "/" + k.typ
			seen[id]++
			generic := strings.HasPrefix(k.name, "cut-") || strings.HasPrefix(k.name, "length-") || k.name == "wrong-algo" || k.name == "trailing"
			if !generic || seen[id] <= 6 || r.Intn(4) == 0 {
				keep = append(keep, k)
			}
		}
		bad = keep
	}
	comment := func() string { return c06Comments[r.Intn(len(c06Comments))] }
	sep := func() string { return c06Seps[r.Intn(len(c06Seps))] }
	option := func() string {
		switch r.Intn(3) {
		case 0:
			return ""
		case 1:
			return c06QuotedOptions[r.Intn(len(c06QuotedOptions))]
		}
		return c06RandOption(r)
	}
	authLine := func(k c06Key, typ string) (line, key string) {
		cm := comment()
		key = typ + " " + k.b64()
		line = typ + sep() + k.b64()
		if cm != "" {
			key += " " + cm
			line += sep() + cm
		}
		if o := option(); o != "" {
			line = o + sep() + line
		}
		return
	}
	hostsLine := func(k c06Key, typ string) (line, key, hosts string) {
		n := 1 + r.Intn(3)
		var hs []string
		for i := 0; i < n; i++ {
			hs = append(hs, c06Hosts[r.Intn(len(c06Hosts))])
		}
		marker := []string{"", "", "@cert-authority", "@revoked"}[r.Intn(4)]
		words := r.Intn(3)
		if marker != "" && words > 1 {
			words = 1
		}
		cm := []string{"", "comment", "two words"}[words]
		key = typ + " " + k.b64()
		line = strings.Join(hs, ",") + sep() + typ + sep() + k.b64()
		if cm != "" {
			key += " " + cm
			line += " " + cm
		}
		if marker != "" {
			line = marker + sep() + line
		}
		return line, key, strings.Join(hs, ", ")
	}
	// ---- every blob: alone, in an authorized_keys line, in a known_hosts line ----
	for _, k := range append(append([]c06Key{}, good...), bad...) {
		blob := k.blob()
		c06KeyblobCase(c, k.name, blob)
		al, akey := authLine(k, k.typ)
		c06LineCase(c, "key-"+k.name, false, []byte(al), k.valid, "", akey)
		hl, hkey, hh := hostsLine(k, k.typ)
		c06LineCase(c, "key-"+k.name, true, []byte(hl), k.valid, hh, hkey)
	}
	// the key type field of the line names another algorithm than the blob: the line parsers never look at it
	for _, k := range good {
		other := good[r.Intn(len(good))].typ
		al, akey := authLine(k, other)
		c06LineCase(c, "key-type-field", false, []byte(al), true, "", akey)
		hl, hkey, hh := hostsLine(k, other)
		c06LineCase(c, "key-type-field", true, []byte(hl), true, hh, hkey)
	}
	// ---- files: well-formed entries of every algorithm (layout + spec checker) ----
	var modelled []c06Key
	for _, k := range good {
		if k.modeled {
			modelled = append(modelled, k)
		}
	}
	nf := 12
	if c.Thorough() {
		nf = 200
	}
	for _, op := range []string{"akeys", "khosts"} {
		for i := 0; i < nf; i++ {
			pool := modelled
			if i%3 == 2 {
				pool = good
			}
			crlf := r.Bool()
			entry := func() sshItem {
				k := pool[r.Intn(len(pool))]
				if op == "khosts" {
					l, key, hh := hostsLine(k, k.typ)
					return sshItem{kind: 0, line: l, key: key, hosts: hh}
				}
				l, key := authLine(k, k.typ)
				if strings.HasPrefix(l, "#") { // an options field that starts with '#' makes the line a comment
					l = "no-pty " + l
				}
				return sshItem{kind: 0, line: l, key: key}
			}
			its := c06SSHLayout(r, 2+r.Intn(5), crlf, entry)
			c06SSHLayoutCase(c, op, "keys", its, crlf, []int{1, 1, 0, 2}[r.Intn(4)])
		}
		// one entry of every good key, in order: the report lists them all
		var its []sshItem
		for _, k := range good {
			if op == "khosts" {
				l, key, hh := hostsLine(k, k.typ)
				its = append(its, sshItem{kind: 0, line: l, key: key, hosts: hh})
			} else {
				key := k.typ + " " + k.b64() + " " + k.name
				its = append(its, sshItem{kind: 0, line: key, key: key})
			}
		}
		c06SSHLayoutCase(c, op, "keys-all", its, false, 1)
		// ---- files with a malformed blob among good entries: no layout, model = implementation ----
		for i := 0; i < nf; i++ {
			var lines []string
			pos, n := r.Intn(3), 3
			for j := 0; j < n; j++ {
				k := modelled[r.Intn(len(modelled))]
				if j == pos {
					k = bad[r.Intn(len(bad))]
				}
				if op == "khosts" {
					l, _, _ := hostsLine(k, k.typ)
					lines = append(lines, l)
				} else {
					l, _ := authLine(k, k.typ)
					lines = append(lines, l)
				}
			}
			c06SSHCase(c, op, "keys-malformed", c06RenderLines(lines, false, 1), nil, false, 1)
		}
	}
}
