(* C01 — property theorems (placeholder until the model is built). *)
From WI Require Import Lib.Base Lib.Info Model.Safety Proofs.Safety.
Theorem C01_placeholder : True.
Proof. exact I. Qed.
Print Assumptions C01_placeholder.
