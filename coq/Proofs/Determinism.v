(* Proofs for C04. *)
From WI Require Import Lib.Base Lib.Time Model.Determinism.
From Coq Require Import Permutation Sorting.Sorted.
From WI Require gen.Scan.
Open Scope N_scope.

(* T1 instance lemmas: every map range and every environment-dependent call site in the
   source, as scanned now, is classified *)
Lemma ranges_benign_now : ranges_benign gen.Scan.map_ranges gen.Scan.reachable = true.
Proof. vm_compute. reflexivity. Qed.

Lemma env_benign_now : env_benign gen.Scan.env_reads = true.
Proof. vm_compute. reflexivity. Qed.

Lemma no_goroutines_now : gen.Scan.go_statements = 0.
Proof. vm_compute. reflexivity. Qed.

(* ---- key usages ---- *)
(* ranging over the table in runtime order is NOT a function of the mask: two orders, one mask *)
Lemma usages_order_matters : exists o1 o2 ku,
  Permutation o1 usage_table /\ Permutation o2 usage_table /\
  usages_in_order o1 ku <> usages_in_order o2 ku.
Proof.
  exists usage_table, (rev usage_table), 3.
  split; [apply Permutation_refl|]. split; [apply Permutation_sym, Permutation_rev|].
  vm_compute. discriminate.
Qed.

(* whatever the order, the SET of names is right: only the order was at fault *)
Lemma usages_any_order_perm : forall o ku, Permutation o usage_table ->
  Permutation (usages_in_order o ku) (key_usages ku).
Proof.
  intros o ku H. unfold key_usages, usages_in_order.
  apply Permutation_map.
  revert H. generalize usage_table. intros t H.
  induction H; cbn [filter].
  - constructor.
  - destruct (N.land ku (fst x) =? fst x); [now constructor|assumption].
  - destruct (N.land ku (fst x) =? fst x), (N.land ku (fst y) =? fst y); try apply Permutation_refl.
    apply perm_swap.
  - eapply Permutation_trans; eauto.
Qed.

(* ---- sort after collecting map keys ---- *)
Lemma bytes_leb_refl : forall a, bytes_leb a a = true.
Proof. induction a as [|x a IH]; cbn [bytes_leb]; [reflexivity|]. rewrite N.ltb_irrefl. exact IH. Qed.

Lemma bytes_leb_total : forall a b, bytes_leb a b = true \/ bytes_leb b a = true.
Proof.
  induction a as [|x a IH]; intros b; [now left|].
  destruct b as [|y b]; [now right|]. cbn [bytes_leb].
  destruct (x <? y) eqn:E1; [now left|]. destruct (y <? x) eqn:E2; [now right|]. apply IH.
Qed.

Lemma bytes_leb_antisym : forall a b, bytes_leb a b = true -> bytes_leb b a = true -> a = b.
Proof.
  induction a as [|x a IH]; intros b H1 H2.
  - destruct b; [reflexivity|discriminate].
  - destruct b as [|y b]; [discriminate|]. cbn [bytes_leb] in H1, H2.
    destruct (x <? y) eqn:E1; destruct (y <? x) eqn:E2.
    + apply N.ltb_lt in E1, E2. lia.
    + discriminate.
    + discriminate.
    + apply N.ltb_ge in E1, E2. assert (x = y) by lia. subst. f_equal. now apply IH.
Qed.

Lemma bytes_leb_trans : forall a b c, bytes_leb a b = true -> bytes_leb b c = true -> bytes_leb a c = true.
Proof.
  induction a as [|x a IH]; intros b c H1 H2; [reflexivity|].
  destruct b as [|y b]; [discriminate|]. destruct c as [|z c]; [discriminate|].
  cbn [bytes_leb] in *.
  destruct (x <? y) eqn:E1.
  - apply N.ltb_lt in E1. destruct (y <? z) eqn:E2.
    + apply N.ltb_lt in E2. assert (x <? z = true) by (apply N.ltb_lt; lia). now rewrite H.
    + destruct (z <? y) eqn:E3; [discriminate|]. apply N.ltb_ge in E2, E3.
      assert (x <? z = true) by (apply N.ltb_lt; lia). now rewrite H.
  - destruct (y <? x) eqn:E1'; [discriminate|]. apply N.ltb_ge in E1, E1'. assert (x = y) by lia. subst y.
    destruct (x <? z) eqn:E2; [reflexivity|]. destruct (z <? x) eqn:E3; [discriminate|]. eapply IH; eauto.
Qed.

Definition le_b (a b : bytes) : Prop := bytes_leb a b = true.

Lemma insert_perm : forall x l, Permutation (insert_sorted x l) (x :: l).
Proof.
  induction l as [|y l IH]; cbn [insert_sorted]; [apply Permutation_refl|].
  destruct (bytes_leb x y); [apply Permutation_refl|].
  eapply Permutation_trans; [apply perm_skip, IH|apply perm_swap].
Qed.

Lemma sort_perm : forall l, Permutation (sort_strings l) l.
Proof.
  induction l as [|x l IH]; cbn [sort_strings fold_right]; [constructor|].
  eapply Permutation_trans; [apply insert_perm|now constructor].
Qed.

Lemma insert_sorted_sorted : forall x l, Sorted le_b l -> Sorted le_b (insert_sorted x l).
Proof.
  induction l as [|y l IH]; intros H; cbn [insert_sorted].
  - repeat constructor.
  - destruct (bytes_leb x y) eqn:E.
    + constructor; [assumption|]. constructor. exact E.
    + inversion H as [|? ? Hs Hh]; subst.
      constructor; [now apply IH|].
      assert (Hyx : le_b y x). { destruct (bytes_leb_total x y) as [C|C]; [congruence|exact C]. }
      destruct l as [|z l]; cbn [insert_sorted].
      * now constructor.
      * destruct (bytes_leb x z); constructor; [exact Hyx|]. inversion Hh; assumption.
Qed.

Lemma sort_sorted : forall l, Sorted le_b (sort_strings l).
Proof.
  induction l as [|x l IH]; cbn [sort_strings fold_right]; [constructor|].
  now apply insert_sorted_sorted.
Qed.

Lemma sorted_strongly : forall l, Sorted le_b l -> StronglySorted le_b l.
Proof.
  apply Sorted_StronglySorted. intros a b c. unfold le_b. apply bytes_leb_trans.
Qed.

(* two sorted lists with the same elements are equal *)
Lemma sorted_perm_eq : forall l1 l2, StronglySorted le_b l1 -> StronglySorted le_b l2 ->
  Permutation l1 l2 -> l1 = l2.
Proof.
  induction l1 as [|x l1 IH]; intros l2 S1 S2 P.
  - apply Permutation_nil in P. now subst.
  - destruct l2 as [|y l2]; [apply Permutation_sym, Permutation_nil in P; discriminate|].
    inversion S1 as [|? ? S1' F1]; inversion S2 as [|? ? S2' F2]; subst.
    assert (x = y).
    { apply bytes_leb_antisym.
      - assert (In y (x :: l1)) by (eapply Permutation_in; [apply Permutation_sym, P|now left]).
        destruct H as [->|H]; [apply bytes_leb_refl|]. rewrite Forall_forall in F1. now apply F1.
      - assert (In x (y :: l2)) by (eapply Permutation_in; [apply P|now left]).
        destruct H as [->|H]; [apply bytes_leb_refl|]. rewrite Forall_forall in F2. now apply F2. }
    subst y. f_equal. apply IH; try assumption. now apply Permutation_cons_inv in P.
Qed.

(* the listing does not depend on the order in which the runtime enumerated the map *)
Theorem sort_perm_invariant : forall keys1 keys2, Permutation keys1 keys2 ->
  identities_listed keys1 = identities_listed keys2.
Proof.
  intros k1 k2 P. unfold identities_listed.
  apply sorted_perm_eq; try (apply sorted_strongly, sort_sorted).
  eapply Permutation_trans; [apply sort_perm|].
  eapply Permutation_trans; [exact P|apply Permutation_sym, sort_perm].
Qed.

(* ---- dates ---- *)
(* formatting in the local zone depends on TZ: 2024-03-01 23:30 UTC is already 2 March at +14:00 *)
Lemma local_date_depends_on_tz : exists sec o1 o2, date_attr_at o1 sec <> date_attr_at o2 sec.
Proof. exists 1709335800%Z, 0%Z, 50400%Z. vm_compute. discriminate. Qed.

Lemma local_keystore_date_depends_on_tz : exists sec o1 o2, keystore_date_at o1 sec <> keystore_date_at o2 sec.
Proof. exists 1702195124%Z, 50400%Z, (-28800)%Z. vm_compute. discriminate. Qed.

(* ---- the dispatcher is a function of its inputs (no hidden state, no functional
   extensionality axiom needed: pointwise-equal oracles give equal results) ---- *)
From WI Require Import Lib.Info Model.Dispatch.

Lemma candidates_ext : forall s1 s2 t name data, (forall n d, s1 n d = s2 n d) ->
  candidates_in s1 t name data = candidates_in s2 t name data.
Proof.
  intros s1 s2 t name data H. induction t as [|r t IH]; cbn [candidates_in]; [reflexivity|].
  unfold row_matches, smells_like. rewrite IH.
  destruct (matches_name r name) as [[|]| |]; try reflexivity.
  destruct (r_sniffer r); [reflexivity|]. now rewrite H.
Qed.

Lemma first_success_ext : forall p1 p2 ps data, (forall n d, p1 n d = p2 n d) ->
  first_success p1 ps data = first_success p2 ps data.
Proof.
  intros p1 p2 ps data H. induction ps as [|p ps IH]; cbn [first_success]; [reflexivity|].
  rewrite H, IH. reflexivity.
Qed.

Lemma dispatch_functional : forall sniff1 sniff2 parse1 parse2 name data,
  (forall n d, sniff1 n d = sniff2 n d) -> (forall n d, parse1 n d = parse2 n d) ->
  inspect sniff1 parse1 name data = inspect sniff2 parse2 name data.
Proof.
  intros s1 s2 p1 p2 name data Hs Hp. unfold inspect, inspect_in.
  rewrite (candidates_ext s1 s2 table name data Hs).
  destruct (candidates_in s2 table name data); try reflexivity.
  now apply first_success_ext.
Qed.

(* ================================================================================================
   The inventory discipline is sound: a program built only from constructs the inventory lists, at
   sites the inventory classifies as benign, computes the same result in every environment and at
   every repetition.
   ================================================================================================ *)
From Coq Require Import String.

Lemma env_class_wf_now : env_class_wf env_class = true.
Proof. vm_compute. reflexivity. Qed.

(* ---- the runtime's choice of an order: always a permutation, and every permutation ---- *)
Lemma insert_at_perm : forall X n (x : X) l, Permutation (insert_at n x l) (x :: l).
Proof.
  intros X n x l. revert n. induction l as [|y l IH]; intros [|n]; cbn [insert_at]; try apply Permutation_refl.
  eapply Permutation_trans; [apply perm_skip, IH|apply perm_swap].
Qed.

Lemma shuffle_perm : forall X code (l : list X), Permutation (shuffle code l) l.
Proof.
  intros X code l. revert code. induction l as [|x l IH]; intros code; cbn [shuffle]; [constructor|].
  eapply Permutation_trans; [apply insert_at_perm|]. constructor. apply IH.
Qed.

Lemma insert_at_app : forall X (x : X) a b, insert_at (List.length a) x (a ++ b) = a ++ x :: b.
Proof.
  intros X x a b. induction a as [|y a IH]; cbn [List.length app insert_at].
  - destruct b; reflexivity.
  - rewrite IH. reflexivity.
Qed.

Lemma shuffle_complete : forall X (l l' : list X), Permutation l l' -> exists code, shuffle code l = l'.
Proof.
  intros X l. induction l as [|x l IH]; intros l' P.
  - apply Permutation_nil in P. subst. exists []. reflexivity.
  - assert (Hin : In x l') by (eapply Permutation_in; [exact P|now left]).
    apply in_split in Hin. destruct Hin as [a [b ->]].
    apply Permutation_cons_app_inv in P.
    destruct (IH _ P) as [code Hc].
    exists (List.length a :: code). cbn [shuffle hd tl]. rewrite Hc. apply insert_at_app.
Qed.

(* ---- strings ---- *)
Lemma has_prefix_head : forall a p k, has_prefix (String a p) k = true -> exists k', k = String a k'.
Proof.
  intros a p [|b k] H; cbn [has_prefix] in H; [discriminate|].
  apply andb_prop in H. destruct H as [H _]. apply Ascii.eqb_eq in H. subst. now exists k.
Qed.

Lemma find_of_existsb : forall X (f : X -> bool) l, existsb f l = true -> exists x, find f l = Some x /\ In x l /\ f x = true.
Proof.
  intros X f l. induction l as [|y l IH]; cbn [existsb find]; [discriminate|].
  destruct (f y) eqn:E; intros H.
  - exists y. repeat split; [now left|exact E].
  - cbn [orb] in H. destruct (IH H) as [x [H1 [H2 H3]]]. exists x. repeat split; [exact H1|now right|exact H3].
Qed.

(* a site of a benign inventory whose kind is not "format-utc" has a status that fits its kind *)
Lemma benign_site_status : forall einv s, env_benign einv = true -> In s einv ->
  String.eqb (site_kind s) "format-utc" = false ->
  exists st, env_status_of s = Some st /\ status_fits (site_kind s) st = true.
Proof.
  intros einv s Hb Hin Hk. unfold env_benign in Hb. rewrite forallb_forall in Hb. specialize (Hb s Hin).
  destruct s as [[f k] o]. unfold site_kind in *. cbn [fst snd] in *. cbn [env_site_ok] in Hb. rewrite Hk in Hb. cbn [orb] in Hb.
  assert (Hx : existsb (site_matches (f, k, o)) env_class = true).
  { rewrite <- Hb. apply f_equal2; [|reflexivity]. reflexivity. }
  clear Hb. apply find_of_existsb in Hx. destruct Hx as [[[[f' k'] o'] st] [Hf [Hi Hm]]].
  exists st. split.
  - unfold env_status_of. rewrite Hf. reflexivity.
  - pose proof env_class_wf_now as W. unfold env_class_wf in W. rewrite forallb_forall in W.
    specialize (W _ Hi). cbn in W. cbn [site_matches] in Hm.
    apply andb_prop in Hm. destruct Hm as [Hm _]. apply andb_prop in Hm. destruct Hm as [_ Hm].
    apply String.eqb_eq in Hm. subst k'. exact W.
Qed.

Lemma env_kind_not_fmt : forall k, has_prefix "env:" k = true -> String.eqb k "format-utc" = false.
Proof.
  intros k H. apply has_prefix_head in H. destruct H as [k' ->]. reflexivity.
Qed.

(* an "env:" site of a benign inventory can only be the program name *)
Lemma benign_env_site : forall einv s, env_benign einv = true -> In s einv ->
  has_prefix "env:" (site_kind s) = true -> env_status_of s = Some EProgramName.
Proof.
  intros einv s Hb Hin Hp.
  destruct (benign_site_status einv s Hb Hin (env_kind_not_fmt _ Hp)) as [st [Hs Hf]].
  rewrite Hs. f_equal.
  pose proof (has_prefix_head _ _ _ Hp) as [k' Hk]. rewrite Hk in Hf.
  destruct st; try reflexivity; exfalso; cbn in Hf; discriminate.
Qed.

(* a formatting site of a benign inventory formats in UTC or at an offset carried by the value *)
Lemma benign_fmt_site : forall einv s l, env_benign einv = true -> In s einv ->
  fmt_kind_ok (site_kind s) l = true ->
  (env_status_of s = Some EUtcByLibrary -> l = LUTC) ->
  (env_status_of s = Some EEncodedClock -> exists off, l = LFixed off) ->
  l <> LLocal.
Proof.
  intros einv s l Hb Hin Hk Hu He.
  destruct (String.eqb (site_kind s) "format-utc") eqn:E.
  - unfold fmt_kind_ok in Hk. rewrite E in Hk. apply String.eqb_eq in E. rewrite E in Hk.
    cbn in Hk. destruct l; cbn in Hk; discriminate.
  - destruct (benign_site_status einv s Hb Hin E) as [st [Hs Hf]].
    destruct st.
    + rewrite (Hu Hs). discriminate.
    + destruct (He Hs) as [off ->]. discriminate.
    + cbn [status_fits] in Hf. apply String.eqb_eq in Hf. unfold fmt_kind_ok in Hk. rewrite Hf in Hk. cbn in Hk. discriminate.
    + cbn [status_fits] in Hf. unfold fmt_kind_ok in Hk. rewrite E in Hk. cbn [andb orb] in Hk.
      exfalso. apply Bool.orb_prop in Hk. destruct Hk as [Hk|Hk].
      * apply String.eqb_eq in Hk. rewrite Hk in Hf. cbn in Hf. discriminate.
      * apply has_prefix_head in Hk. destruct Hk as [k' Hk]. rewrite Hk in Hf. cbn in Hf. discriminate.
Qed.

Lemma offset_in_not_local : forall e1 e2 l sec, l <> LLocal -> offset_in e1 l sec = offset_in e2 l sec.
Proof. intros e1 e2 [| |o] sec H; cbn [offset_in]; try reflexivity. now elim H. Qed.

Lemma benign_range : forall rinv reach f o t, ranges_benign rinv reach = true -> In (f, o, t) rinv ->
  mem_string f reach = true ->
  lookup_range f o range_class = Some RSortedAfter \/ lookup_range f o range_class = Some RLookupOnly.
Proof.
  intros rinv reach f o t Hb Hin Hr. unfold ranges_benign in Hb. rewrite forallb_forall in Hb.
  specialize (Hb _ Hin). cbv beta iota in Hb.
  destruct (lookup_range f o range_class) as [[| |]|]; try discriminate.
  - rewrite Hr in Hb. discriminate.
  - now left.
  - now right.
Qed.

Theorem run_env_independent : forall einv rinv reach ngo,
  env_benign einv = true -> ranges_benign rinv reach = true -> ngo = 0 ->
  forall A (p : prog A), obeys einv rinv reach ngo p ->
  forall e1 e2 n1 n2, fst (run e1 n1 p) = fst (run e2 n2 p).
Proof.
  intros einv rinv reach ngo He Hr Hg A p H.
  induction H as [a | s q k Hin Hp Hdis Hk IH | s l f sec k Hin Hkind Hu Hc Hk IH | s m k Hin Hp Hk IH
                 | f o keys k Hin Hreach Hs Hl Hk IH | s rs k Hgo Hk IH]; intros e1 e2 n1 n2.
  - reflexivity.
  - cbn [run].
    pose proof (benign_env_site einv s He Hin Hp) as Hst.
    rewrite (Hdis Hst (e_read e1 q) (e_read e2 q) e1 n1). apply IH.
  - cbn [run].
    rewrite (offset_in_not_local e1 e2 l sec (benign_fmt_site einv s l He Hin Hkind Hu Hc)). apply IH.
  - cbn [run]. apply IH.
  - cbn [run]. destruct Hin as [t Hin].
    destruct (benign_range rinv reach f o t Hr Hin Hreach) as [Hc|Hc].
    + destruct (Hs Hc) as [k' Hk'].
      assert (E : k (shuffle (e_choice e1 n1) keys) = k (shuffle (e_choice e2 n2) keys)).
      { rewrite !Hk'. f_equal. apply sort_perm_invariant.
        eapply Permutation_trans; [apply shuffle_perm|apply Permutation_sym, shuffle_perm]. }
      rewrite E. apply IH.
    + rewrite (Hl Hc (shuffle (e_choice e1 n1) keys) (shuffle (e_choice e2 n2) keys) e1 (S n1)).
      * apply IH.
      * eapply Permutation_trans; [apply shuffle_perm|apply Permutation_sym, shuffle_perm].
  - subst ngo. exfalso. revert Hgo. apply N.lt_irrefl.
Qed.

(* the whole modelled pipeline: dispatcher (Model/Dispatch.v) over sniffer and parser programs, then the printer *)
Theorem describe_env_independent : forall einv rinv reach ngo pl,
  env_benign einv = true -> ranges_benign rinv reach = true -> ngo = 0 ->
  pipeline_obeys einv rinv reach ngo pl ->
  forall e1 e2 n1 n2 name content, describe pl e1 n1 name content = describe pl e2 n2 name content.
Proof.
  intros einv rinv reach ngo pl He Hr Hg [Hs [Hp Hq]] e1 e2 n1 n2 name content. unfold describe.
  rewrite (dispatch_functional
             (fun s d => fst (run e1 n1 (pl_sniff pl s d))) (fun s d => fst (run e2 n2 (pl_sniff pl s d)))
             (fun p d => fst (run e1 n1 (pl_parse pl p d))) (fun p d => fst (run e2 n2 (pl_parse pl p d))) name content).
  - destruct (Dispatch.inspect _ _ name content) as [i| |]; try reflexivity.
    f_equal. apply (run_env_independent einv rinv reach ngo He Hr Hg). apply Hq.
  - intros n d. apply (run_env_independent einv rinv reach ngo He Hr Hg). apply Hs.
  - intros n d. apply (run_env_independent einv rinv reach ngo He Hr Hg). apply Hp.
Qed.

(* for the source as it is scanned now *)
Theorem describe_function_of_name_and_content_now : forall pl,
  pipeline_obeys gen.Scan.env_reads gen.Scan.map_ranges gen.Scan.reachable gen.Scan.go_statements pl ->
  forall e1 e2 n1 n2 name content, describe pl e1 n1 name content = describe pl e2 n2 name content.
Proof.
  intros pl H. apply (describe_env_independent _ _ _ _ pl env_benign_now ranges_benign_now no_goroutines_now H).
Qed.

(* ---- the hypotheses are met by a non-trivial pipeline over the sites of the source as it is ---- *)
Lemma In_dec_true : forall (s : site) l,
  existsb (fun x => match x, s with (f, k, o), (f', k', o') => String.eqb f f' && String.eqb k k' && (o =? o') end) l = true -> In s l.
Proof.
  intros [[f' k'] o'] l H. apply existsb_exists in H. destruct H as [[[f k] o] [Hi H]].
  apply andb_prop in H. destruct H as [H Ho]. apply andb_prop in H. destruct H as [Hf Hk].
  apply String.eqb_eq in Hf, Hk. apply N.eqb_eq in Ho. subst. exact Hi.
Qed.

Lemma sample_pipeline_obeys :
  pipeline_obeys gen.Scan.env_reads gen.Scan.map_ranges gen.Scan.reachable gen.Scan.go_statements sample_pipeline.
Proof.
  split; [|split].
  - intros s d. constructor.
  - intros p d. unfold sample_pipeline, pl_parse, sample_parse.
    destruct (bytes_eqb p (bs "PGPPublicKey")); [|destruct (bytes_eqb p (bs "ASN1File"))].
    + apply ob_range.
      * assert (H : existsb (fun r => match r with (f, o, _) => String.eqb f "internal/file:pgpKey" && (o =? 1) end) gen.Scan.map_ranges = true)
          by (vm_compute; reflexivity).
        apply existsb_exists in H. destruct H as [[[f o] t] [Hi H]]. apply andb_prop in H. destruct H as [Hf Ho].
        apply String.eqb_eq in Hf. apply N.eqb_eq in Ho. subst. now exists t.
      * vm_compute. reflexivity.
      * intros _. exists (pgp_after_sort (1709335800 + Z.of_nat (List.length d))%Z). intros l. reflexivity.
      * intros H. vm_compute in H. discriminate.
      * intros l. unfold pgp_after_sort. apply ob_fmt.
        -- apply In_dec_true. vm_compute. reflexivity.
        -- reflexivity.
        -- intros H. reflexivity.
        -- intros H. vm_compute in H. discriminate.
        -- intros b. constructor.
    + apply ob_fmt.
      * apply In_dec_true. vm_compute. reflexivity.
      * reflexivity.
      * reflexivity.
      * intros H. vm_compute in H. discriminate.
      * intros b. apply ob_fmt.
        -- apply In_dec_true. vm_compute. reflexivity.
        -- reflexivity.
        -- reflexivity.
        -- intros H. vm_compute in H. discriminate.
        -- intros b'. constructor.
    + apply ob_log.
      * apply In_dec_true. vm_compute. reflexivity.
      * reflexivity.
      * constructor.
  - intros i. constructor.
Qed.

(* two environments: Berlin in summer, choices made in file order / Kiritimati, every order reversed *)
Definition env_a : env := mkenv (fun q => bs "C") (fun _ => 7200%Z) (fun _ => []).
Definition env_b : env := mkenv (fun q => bs "tr_TR.UTF-8") (fun _ => 50400%Z) (fun _ => [7; 6; 5; 4; 3; 2; 1]%nat).

Lemma sample_report_is_not_trivial :
  describe sample_pipeline env_a 0 (bs "k.asc") (bs "-----BEGIN PGP PUBLIC KEY BLOCK-----" ++ [10] ++ bs "zoe" ++ [10] ++ bs "Alice")
  <> describe sample_pipeline env_a 0 (bs "k.asc") (bs "-----BEGIN PGP PUBLIC KEY BLOCK-----" ++ [10] ++ bs "zoe" ++ [10] ++ bs "Bob").
Proof. vm_compute. discriminate. Qed.

(* ---- each hypothesis is needed: the two seeded changes as programs ---- *)
(* an environment read that reaches the report: not a function of (name, content) *)
Lemma locale_read_depends_on_env : exists i e1 e2, fst (run e1 0 (locale_print i)) <> fst (run e2 0 (locale_print i)).
Proof.
  exists (Info (bs "SSH public key") [(bs "Comment", [90; 111; 195; 171])] []), env_a, env_b.
  vm_compute. discriminate.
Qed.

(* results collected in completion order: not a function of (name, content), not even within one process *)
Lemma completion_order_depends_on_schedule : exists blocks e n1 n2,
  fst (run e n1 (parallel_blocks blocks)) <> fst (run e n2 (parallel_blocks blocks)).
Proof.
  exists [leaf (bs "certificate A") []; leaf (bs "private key B") []],
         (mkenv (fun _ => []) (fun _ => 0%Z) (fun n => match n with O => [] | _ => [1%nat] end)), 0%nat, 1%nat.
  vm_compute. discriminate.
Qed.

(* and the inventory sees both: neither site could be classified *)
Lemma locale_site_not_benign : env_benign [("cmd/decipher:localeIsUTF8", "env:os.Getenv", 1)%string] = false.
Proof. vm_compute. reflexivity. Qed.
