package main

// C18: JWT recognition and registered fields.  Tokens are built from generated JSON ASTs
// (leaves serialised by encoding/json, objects assembled here so that member order,
// duplicates and white space can be chosen), each segment in one of the four base64
// conventions.  Per token the harness records what the real library calls returned for
// the decoded segments (compared with the model's reference JSON reader by the op json; the
// model falls back to it only for number literals of more than 1000 bytes) and the AST itself
// (for the spec checker, which never sees the library's answers except to test the first-byte
// hypothesis of C18_dispatch on them).

import (
	"bytes"
	"encoding/json"
	"fmt"
	"math"
	"math/big"
	"os"
	"path/filepath"
	"sort"
	"strconv"
	"strings"
	"time"

	"github.com/edutko/decipher/internal/file"
	"github.com/edutko/decipher/internal/util"
)

func init() {
	gens["C18"] = genC18
	dumpers = append(dumpers, func(out map[string]any) {
		type row struct {
			Key   string `json:"key"`
			Label string `json:"label"`
			Conv  string `json:"conv"`
		}
		var rows []row
		for _, p := range file.VerifJWTParams() {
			rows = append(rows, row{p[0], p[1], p[2]})
		}
		out["jwt_params"] = rows
	})
}

// ---------- AST ----------
type c18Val struct {
	kind int // 0 string, 1 number (mant*10^exp), 2 bool, 3 null, 4 array, 5 object
	s    string
	mant int64
	exp  int
	b    bool
	lit  string   // JSON text chosen for this value
	bigm *big.Int // number: the mantissa when it does not fit an int64
}
type c18KV struct {
	k    string
	klit string
	v    c18Val
}
type c18Obj []c18KV

func (v c18Val) sx() Sx {
	switch v.kind {
	case 0:
		return SL{I(0), S(v.s)}
	case 1:
		if v.bigm != nil { // (1 #magnitude exp10 negative)
			return SL{I(1), SB(new(big.Int).Abs(v.bigm).Bytes()), I(v.exp), Bool(v.bigm.Sign() < 0)}
		}
		return SL{I(1), sInt(v.mant), I(v.exp)}
	case 2:
		return SL{I(2), Bool(v.b)}
	default:
		return SL{I(v.kind)}
	}
}
func (o c18Obj) sx() Sx {
	l := SL{}
	for _, kv := range o {
		l = append(l, SL{S(kv.k), kv.v.sx()})
	}
	return l
}

func c18Ws(r *Rng, on bool) string {
	if !on || r.Intn(3) != 0 {
		return ""
	}
	return []string{" ", "\n", "\t", "\r\n", "  "}[r.Intn(5)]
}

func (o c18Obj) text(r *Rng, ws bool) []byte {
	var sb strings.Builder
	sb.WriteString(c18Ws(r, ws))
	sb.WriteByte('{')
	for i, kv := range o {
		if i > 0 {
			sb.WriteByte(',')
		}
		sb.WriteString(c18Ws(r, ws))
		sb.WriteString(kv.klit)
		sb.WriteString(c18Ws(r, ws))
		sb.WriteByte(':')
		sb.WriteString(c18Ws(r, ws))
		sb.WriteString(kv.v.lit)
		sb.WriteString(c18Ws(r, ws))
	}
	sb.WriteByte('}')
	sb.WriteString(c18Ws(r, ws))
	return []byte(sb.String())
}

// c18StrLit: a JSON string literal denoting s (valid UTF-8), in one of three spellings.
func c18StrLit(r *Rng, s string) string {
	switch r.Intn(5) {
	case 0: // no HTML escaping
		var buf bytes.Buffer
		e := json.NewEncoder(&buf)
		e.SetEscapeHTML(false)
		e.Encode(s)
		return strings.TrimRight(buf.String(), "\n")
	case 1: // every character escaped
		var sb strings.Builder
		sb.WriteByte('"')
		for _, c := range s {
			if c >= 0x10000 {
				c -= 0x10000
				fmt.Fprintf(&sb, "\\u%04x\\u%04X", 0xd800+(c>>10), 0xdc00+(c&0x3ff))
			} else {
				fmt.Fprintf(&sb, "\\u%04x", c)
			}
		}
		sb.WriteByte('"')
		return sb.String()
	default:
		b, _ := json.Marshal(s)
		return string(b)
	}
}

func c18Str(r *Rng, s string) c18Val { return c18Val{kind: 0, s: s, lit: c18StrLit(r, s)} }

// c18NumLit: JSON number text with the exact value mant*10^exp.
func c18NumLit(r *Rng, mant int64, exp int) string {
	neg := mant < 0
	d := strconv.FormatInt(mant, 10)
	if neg {
		d = d[1:]
	}
	sign := ""
	if neg || (mant == 0 && r.Intn(4) == 0) {
		sign = "-"
	}
	form := r.Intn(3)
	if form == 0 {
		if exp >= 0 && exp <= 25 {
			if mant == 0 {
				return sign + "0"
			}
			return sign + d + strings.Repeat("0", exp)
		}
		if exp < 0 && -exp <= 40 {
			k := -exp
			for len(d) <= k {
				d = "0" + d
			}
			return sign + d[:len(d)-k] + "." + d[len(d)-k:]
		}
		form = 1
	}
	es := []string{"e", "E", "e+", "E+"}[r.Intn(4)]
	if form == 1 {
		if exp < 0 {
			return sign + d + es[:1] + strconv.Itoa(exp)
		}
		return sign + d + es + strconv.Itoa(exp)
	}
	// d.ddd e X
	x := exp + len(d) - 1
	m := d[:1]
	if len(d) > 1 {
		m += "." + d[1:]
	}
	if x < 0 {
		return sign + m + es[:1] + strconv.Itoa(x)
	}
	return sign + m + es + strconv.Itoa(x)
}

func c18Num(r *Rng, mant int64, exp int) c18Val {
	return c18Val{kind: 1, mant: mant, exp: exp, lit: c18NumLit(r, mant, exp)}
}

var c18Registered = []string{"alg", "typ", "jku", "jwk", "kid", "x5u", "x5c", "x5t", "x5t#S256",
	"aud", "exp", "iat", "iss", "jti", "nbf", "sub"}
var c18Unknown = []string{"cty", "crit", "name", "admin", "Exp", "exp ", "ALG", "x5t#s256", "", "scope", "nonce", "é", "Sub", "iss\u0000"}
var c18Algs = []string{"HS256", "HS384", "HS512", "RS256", "RS384", "RS512", "ES256", "ES384", "ES512", "PS256", "PS384", "PS512"}
var c18OtherAlgs = []string{"none", "EdDSA", "HS257", "hs256", "", "ES256K", "HS256 ", " RS256", "PS", "RS1"}
var c18Strings = []string{"", "x", "JWT", "https://example.com/.well-known/jwks.json", "héllo wörld",
	"日本語", "a\nb", "tab\there", "quote\"back\\slash/", "<script>&amp;", "  ", "\U0001F600", "nul\u0000byte",
	"1700000000", " 17", "+5", "-1", "0x10", "1e3", "١٢٣", "9223372036854775807", "9223372036854775808",
	"253402300799", "253402300800", "-62135596800", "-62135596801", "00012", "tomorrow", "1_000", "1700000000.5", "-", "+", "-0",
	"user@example.com", "urn:example:issuer", "2023-11-14 22:13:20", "null", "\u007f\u0080\u009f"}

type c18N struct {
	m int64
	e int
}

var c18Numbers = []c18N{{1700000000, 0}, {0, 0}, {-1, 0}, {1, 0}, {17000000005, -1}, {17, 8}, {1516239022, 0},
	{253402300799, 0}, {253402300800, 0}, {-62135596800, 0}, {-62135596801, 0}, {1, 30}, {-1, 30}, {5, -1}, {-5, -1},
	{1699999999999, -3}, {1, -300}, {-1, -300}, {9007199254740993, 0}, {123456789012345678, 0}, {4102444800, 0}, {951782400, 0},
	{951868799, 0}, {1700000000000, 0}, {2147483647, 0}, {2147483648, 0}, {-2147483649, 0}, {4294967296, 0},
	{2534023007999, -1}, {-621355968001, -1}, {25340230079999999, -5}, {-86400, 0}, {-86401, 0}, {86399, 0}, {1, 300}, {17, 300},
	{16999999999999999, -7}, {1700000000999999999, -9}, {2, 0}, {59, 0}, {60, 0}, {3599, 0}, {3600, 0}, {31535999, 0}, {31536000, 0},
	{68169600, 0}, {-2208988800, 0}, {32503680000, 0}, {-30610224000, 0}, {-59011459200, 0}}

func c18RandNum(r *Rng) c18Val {
	switch r.Intn(6) {
	case 0, 1:
		n := c18Numbers[r.Intn(len(c18Numbers))]
		return c18Num(r, n.m, n.e)
	case 2: // a plausible timestamp
		return c18Num(r, 946684800+int64(r.Intn(2000000000)), 0)
	case 3: // anywhere in (and a bit around) the calendar range
		t := int64(r.U64()%(253402300800+62135596800+2000000)) - 62135596800 - 1000000
		return c18Num(r, t, 0)
	case 4: // fractional, up to 18 significant digits
		k := 1 + r.Intn(6)
		t := int64(r.U64()%(4000000000)) - 1000000000
		p := int64(1)
		for i := 0; i < k; i++ {
			p *= 10
		}
		return c18Num(r, t*p+int64(r.Intn(int(p))), -k)
	default: // wild magnitudes
		m := int64(r.U64()%2000000) - 1000000
		return c18Num(r, m, r.Intn(80)-40)
	}
}

func c18RandStr(r *Rng) c18Val {
	switch r.Intn(8) {
	case 0: // long
		return c18Str(r, strings.Repeat("abcdefghij", 1+r.Intn(40)))
	case 1: // random printable with some non-ASCII
		n := r.Intn(20)
		var sb strings.Builder
		for i := 0; i < n; i++ {
			switch r.Intn(6) {
			case 0:
				sb.WriteRune(rune(0xa0 + r.Intn(0x500)))
			case 1:
				sb.WriteRune(rune(r.Intn(0x20)))
			default:
				sb.WriteByte(byte(0x20 + r.Intn(0x5f)))
			}
		}
		return c18Str(r, sb.String())
	case 2: // digit strings
		return c18Str(r, strconv.FormatInt(int64(r.U64()%4000000000)-1000000000, 10))
	default:
		return c18Str(r, c18Strings[r.Intn(len(c18Strings))])
	}
}

func c18Other(r *Rng) c18Val {
	switch r.Intn(8) {
	case 0:
		return c18Val{kind: 2, b: true, lit: "true"}
	case 1:
		return c18Val{kind: 2, b: false, lit: "false"}
	case 2, 3:
		return c18Val{kind: 3, lit: "null"}
	case 4:
		return c18Val{kind: 4, lit: []string{"[]", `["a","b"]`, "[1700000000]", `[{"sub":"x"}]`, "[null]", `[ "HS256" ]`}[r.Intn(6)]}
	case 5:
		return c18Val{kind: 5, lit: []string{"{}", `{"k":"v"}`, `{"sub":"nested"}`, `{"kty":"RSA","n":"AQAB","e":"AQAB"}`, `{"a":{"b":[1,2,{"c":null}]}}`}[r.Intn(5)]}
	case 6:
		return c18RandNum(r)
	default:
		return c18RandStr(r)
	}
}

// value for a registered name: mostly of the natural kind
func c18ValueFor(r *Rng, name string) c18Val {
	nat := r.Intn(100) < 70
	switch name {
	case "alg":
		if nat {
			if r.Intn(4) == 0 {
				return c18Str(r, c18OtherAlgs[r.Intn(len(c18OtherAlgs))])
			}
			return c18Str(r, c18Algs[r.Intn(len(c18Algs))])
		}
	case "exp", "nbf", "iat":
		if nat {
			return c18RandNum(r)
		}
		if r.Intn(3) == 0 {
			return c18RandStr(r)
		}
	default:
		if nat {
			return c18RandStr(r)
		}
	}
	return c18Other(r)
}

func c18KVOf(r *Rng, k string, v c18Val) c18KV { return c18KV{k: k, klit: c18StrLit(r, k), v: v} }

func c18RandObj(r *Rng, header bool) c18Obj {
	var o c18Obj
	p := []int{5, 15, 35, 70}[r.Intn(4)]
	for i, n := range c18Registered {
		q := p
		if (i < 9) != header { // names of the other part are rarer but do occur
			q = p / 4
		}
		if r.Intn(100) < q {
			o = append(o, c18KVOf(r, n, c18ValueFor(r, n)))
			if r.Intn(20) == 0 { // duplicate member
				o = append(o, c18KVOf(r, n, c18ValueFor(r, n)))
			}
		}
	}
	for k := r.Intn(4); k > 0; k-- {
		o = append(o, c18KVOf(r, c18Unknown[r.Intn(len(c18Unknown))], c18Other(r)))
	}
	for i := len(o) - 1; i > 0; i-- { // shuffle
		j := r.Intn(i + 1)
		o[i], o[j] = o[j], o[i]
	}
	return o
}

// ---------- JSON texts that stress the decoding rules of encoding/json ----------
// A string literal is assembled from pieces; each piece carries its JSON spelling and, written
// down by hand from RFC 8259 section 7 / the documentation of json.Unmarshal ("invalid UTF-8 or
// invalid UTF-16 surrogate pairs ... are replaced by U+FFFD"), the bytes it denotes.  No piece
// ends in a high surrogate escape or in the lead byte of a UTF-8 sequence, so pieces do not
// combine with their neighbours.
type c18Piece struct{ lit, want string }

var c18Pieces = []c18Piece{
	{"a", "a"}, {"xyz", "xyz"}, {" ", " "}, {"~", "~"}, {"17", "17"}, {"0", "0"}, {"-", "-"}, {"'", "'"}, {"{}", "{}"}, {"[", "["},
	{`\"`, `"`}, {`\\`, `\`}, {`\/`, `/`}, {"/", "/"}, {`\b`, "\b"}, {`\f`, "\f"}, {`\n`, "\n"}, {`\r`, "\r"}, {`\t`, "\t"},
	{`\\n`, `\n`}, {`\\u0041`, `\u0041`}, {`\\\"`, `\"`},
	{`\u0041`, "\x41"}, {`\u0061`, "\x61"}, {`\u0031`, "\x31"}, {`\u0030`, "\x30"}, {`\u002e`, "\x2e"}, {`\u002E`, "\x2e"}, {`\u0022`, "\x22"},
	{`\u005c`, "\x5c"}, {`\u005C`, "\x5c"}, {`\u0000`, "\x00"}, {`\u0001`, "\x01"}, {`\u000a`, "\x0a"}, {`\u000A`, "\x0a"}, {`\u001b`, "\x1b"},
	{`\u001f`, "\x1f"}, {`\u007f`, "\x7f"}, {`\u0080`, "\xc2\x80"}, {`\u009f`, "\xc2\x9f"}, {`\u00a0`, "\xc2\xa0"}, {`\u00e9`, "\xc3\xa9"}, {`\u00E9`, "\xc3\xa9"},
	{`\u07ff`, "\xdf\xbf"}, {`\u0800`, "\xe0\xa0\x80"}, {`\u20ac`, "\xe2\x82\xac"}, {`\u20AC`, "\xe2\x82\xac"}, {`\u2028`, "\xe2\x80\xa8"}, {`\ud7ff`, "\xed\x9f\xbf"}, {`\ue000`, "\xee\x80\x80"},
	{`\ufeff`, "\xef\xbb\xbf"}, {`\ufffd`, "\xef\xbf\xbd"}, {`\ufffe`, "\xef\xbf\xbe"}, {`\uffff`, "\xef\xbf\xbf"},
	// surrogate pairs
	{`\ud83d\ude00`, "\xf0\x9f\x98\x80"}, {`\uD83D\uDE00`, "\xf0\x9f\x98\x80"}, {`\ud800\udc00`, "\xf0\x90\x80\x80"}, {`\udbff\udfff`, "\xf4\x8f\xbf\xbf"}, {`\ud834\udd1e`, "\xf0\x9d\x84\x9e"},
	// lone and misordered surrogates: U+FFFD each
	{`\ud800x`, "\xef\xbf\xbdx"}, {`\udbffx`, "\xef\xbf\xbdx"}, {`\udc00`, "\xef\xbf\xbd"}, {`\udfff`, "\xef\xbf\xbd"}, {`\udc00\ud800x`, "\xef\xbf\xbd\xef\xbf\xbdx"},
	{`\ud800A`, "\xef\xbf\xbdA"}, {`\ud800\n`, "\xef\xbf\xbd\n"}, {`\ud800\\udc00`, "\xef\xbf\xbd\\udc00"}, {`\ud800\ud83d\ude00`, "\xef\xbf\xbd\xf0\x9f\x98\x80"},
	{`\ud800\ud800x`, "\xef\xbf\xbd\xef\xbf\xbdx"}, {`\udc00\udc00`, "\xef\xbf\xbd\xef\xbf\xbd"}, {`\ud83d \ude00`, "\xef\xbf\xbd \xef\xbf\xbd"}, {`\ud83dude00`, "\xef\xbf\xbdude00"},
	{`\ud800\ue000`, "\xef\xbf\xbd\xee\x80\x80"}, {`\ud800\ud7ff`, "\xef\xbf\xbd\xed\x9f\xbf"},
	// UTF-8 written directly
	{"\xc3\xa9", "\xc3\xa9"}, {"\xe2\x82\xac", "\xe2\x82\xac"}, {"\xf0\x9f\x98\x80", "\xf0\x9f\x98\x80"}, {"\xef\xbf\xbd", "\xef\xbf\xbd"}, {"\x7f", "\x7f"}, {"\xc2\x80", "\xc2\x80"},
	{"\xe2\x80\xa8", "\xe2\x80\xa8"}, {"\xf4\x8f\xbf\xbf", "\xf4\x8f\xbf\xbf"}, {"\xed\x9f\xbf", "\xed\x9f\xbf"}, {"\xee\x80\x80", "\xee\x80\x80"}, {"\xef\xbb\xbf", "\xef\xbb\xbf"},
	// invalid UTF-8: every byte that starts no valid sequence becomes U+FFFD
	{"\xff", "\xef\xbf\xbd"}, {"\xfe", "\xef\xbf\xbd"}, {"\x80", "\xef\xbf\xbd"}, {"\xbf", "\xef\xbf\xbd"}, {"\xc0\x80", "\xef\xbf\xbd\xef\xbf\xbd"}, {"\xc1\xbf", "\xef\xbf\xbd\xef\xbf\xbd"},
	{"\xe0\x80\x80", "\xef\xbf\xbd\xef\xbf\xbd\xef\xbf\xbd"}, {"\xe0\x9f\xbf", "\xef\xbf\xbd\xef\xbf\xbd\xef\xbf\xbd"}, {"\xed\xa0\x80", "\xef\xbf\xbd\xef\xbf\xbd\xef\xbf\xbd"}, {"\xed\xbf\xbf", "\xef\xbf\xbd\xef\xbf\xbd\xef\xbf\xbd"},
	{"\xf0\x80\x80\x80", "\xef\xbf\xbd\xef\xbf\xbd\xef\xbf\xbd\xef\xbf\xbd"}, {"\xf0\x8f\xbf\xbf", "\xef\xbf\xbd\xef\xbf\xbd\xef\xbf\xbd\xef\xbf\xbd"}, {"\xf4\x90\x80\x80", "\xef\xbf\xbd\xef\xbf\xbd\xef\xbf\xbd\xef\xbf\xbd"},
	{"\xf5\x80\x80\x80", "\xef\xbf\xbd\xef\xbf\xbd\xef\xbf\xbd\xef\xbf\xbd"}, {"\xf8\x88\x80\x80\x80", "\xef\xbf\xbd\xef\xbf\xbd\xef\xbf\xbd\xef\xbf\xbd\xef\xbf\xbd"},
	{"\xc3x", "\xef\xbf\xbdx"}, {"\xe2\x82x", "\xef\xbf\xbd\xef\xbf\xbdx"}, {"\xf0\x9f\x98x", "\xef\xbf\xbd\xef\xbf\xbd\xef\xbf\xbdx"}, {"\xc3\\n", "\xef\xbf\xbd\n"}, {"\xe2\x82\\u0041", "\xef\xbf\xbd\xef\xbf\xbdA"},
	{"\xc3\xc3\xa9", "\xef\xbf\xbd\xc3\xa9"}, {"\xe2\xc3\xa9", "\xef\xbf\xbd\xc3\xa9"}, {"\xc3\xa9\xa9", "\xc3\xa9\xef\xbf\xbd"},
}

func c18StressStr(r *Rng) c18Val {
	var lit, want strings.Builder
	lit.WriteByte('"')
	for n := r.Intn(6); n > 0; n-- {
		p := c18Pieces[r.Intn(len(c18Pieces))]
		lit.WriteString(p.lit)
		want.WriteString(p.want)
	}
	lit.WriteByte('"')
	return c18Val{kind: 0, s: want.String(), lit: lit.String()}
}

// c18StressKey: the name spelled with some characters as \u00XX escapes (either hex case).
func c18StressKey(r *Rng, k string) c18KV {
	var sb strings.Builder
	sb.WriteByte('"')
	for i := 0; i < len(k); i++ {
		c := k[i]
		switch {
		case c < 0x80 && r.Intn(3) == 0:
			fmt.Fprintf(&sb, []string{"\\u%04x", "\\u%04X"}[r.Intn(2)], c)
		case c == '"' || c == '\\' || c < 0x20:
			fmt.Fprintf(&sb, "\\u%04x", c)
		default:
			sb.WriteByte(c)
		}
	}
	sb.WriteByte('"')
	return c18KV{k: k, klit: sb.String()}
}

type c18NumSpell struct {
	lit  string
	mant string // decimal integer
	exp  int    // value = mant * 10^exp
}

var c18NumSpellings = []c18NumSpell{
	{"1.7e9", "17", 8}, {"17E8", "17", 8}, {"0.17e10", "17", 8}, {"1700000000e0", "1700000000", 0}, {"1700000000E-0", "1700000000", 0},
	{"170000000000e-2", "17", 8}, {"0.0000000017e18", "17", 8}, {"1.0e+9", "1", 9}, {"1e+09", "1", 9}, {"1E009", "1", 9}, {"1e9", "1", 9},
	{"1700000000.0", "17", 8}, {"1700000000.000000000000000000000000000001", "1700000000000000000000000000000000000001", -30},
	{"1699999999.999999999999999999999999999999", "1699999999999999999999999999999999999999", -30},
	{"1700000000.5000000000000000000000000000000000001", "17000000005", -1}, {"1700000000.4999999", "17000000004999999", -7},
	{"-0", "0", 0}, {"-0.0", "0", 0}, {"0e5", "0", 0}, {"0.0e-5", "0", 0}, {"0E+0", "0", 0}, {"-0e-0", "0", 0}, {"0.000", "0", 0},
	{"1e-400", "1", -400}, {"-1e-400", "-1", -400}, {"4.9e-324", "49", -325}, {"2.4e-324", "24", -325}, {"1e-7", "1", -7}, {"-1e-7", "-1", -7}, {"0.9999999999999999999", "9999999999999999999", -19},
	{"-0.9999999999999999999", "-9999999999999999999", -19}, {"0.99999999999999999999999", "99999999999999999999999", -23},
	{"123456789012345678901234567890", "123456789012345678901234567890", 0}, {"-123456789012345678901234567890", "-123456789012345678901234567890", 0},
	{"9007199254740993", "9007199254740993", 0}, {"18446744073709551616", "18446744073709551616", 0}, {"9223372036854775808", "9223372036854775808", 0},
	{"1e22", "1", 22}, {"1e23", "1", 23}, {"1.7976931348623157e308", "17976931348623157", 292}, {"-1.7976931348623157e308", "-17976931348623157", 292},
	{"253402300799.0", "253402300799", 0}, {"253402300799.9", "2534023007999", -1}, {"2.53402300799e11", "253402300799", 0}, {"253402300800e-0", "253402300800", 0},
	{"-62135596800.0", "-62135596800", 0}, {"-62135596800.5", "-621355968005", -1}, {"-6.21355968e10", "-62135596800", 0},
	{"-1.5", "-15", -1}, {"-0.5", "-5", -1}, {"-1.0", "-1", 0}, {"-86400.25", "-8640025", -2}, {"-1e0", "-1", 0}, {"-100e-2", "-1", 0},
	{"1516239022", "1516239022", 0}, {"1516239022.000", "1516239022", 0}, {"15162390.22e2", "1516239022", 0}, {"4102444800", "4102444800", 0}, {"4.1024448E9", "4102444800", 0},
}

func c18StressNum(r *Rng) c18Val {
	if r.Intn(8) == 0 { // a literal too long for the reference reader of the model (it leaves those to the library)
		z := strings.Repeat("0", 1001+r.Intn(200))
		if r.Bool() {
			return c18Val{kind: 1, mant: 17, exp: 8, lit: "0." + z + "17e" + strconv.Itoa(len(z)+10)}
		}
		return c18Val{kind: 1, mant: 1700000000, exp: 0, lit: "1700000000." + z}
	}
	sp := c18NumSpellings[r.Intn(len(c18NumSpellings))]
	m, _ := new(big.Int).SetString(sp.mant, 10)
	if m.IsInt64() {
		return c18Val{kind: 1, mant: m.Int64(), exp: sp.exp, lit: sp.lit}
	}
	return c18Val{kind: 1, exp: sp.exp, lit: sp.lit, bigm: m}
}

var c18StressArrays = []string{`[1e2,"\ud800",{"exp":1}]`, `[[[[[[[[[[]]]]]]]]]]`, "[ ]", "[\n1 ,\t2\r]", `["\u0000","\"",-0.0e-0]`, `[true,false,null]`, `[{"a":[{"b":[{"c":[]}]}]}]`,
	`["]","}",",",":"]`, `[1E+2,1e-2,0.5,-0]`, "[\"\xff\"]", `[1e308,-1e308,1e-999]`}
var c18StressObjects = []string{`{"a":{"a":{"a":{"a":{"a":{}}}}}}`, "{ }", "{\n\"a\" :\t1 ,\r\"b\":2 }", `{"":""}`, `{"a":1,"a":2,"a":[3]}`, `{"a":"\ud800"}`, `{"}":"{","]":"["}`,
	`{"exp":1700000000,"sub":"nested","alg":"HS256"}`, "{\"\xff\":\"\xfe\"}", `{"x":[{"y":{"z":[1.5e300,"\\"]}}]}`}

func c18StressOther(r *Rng) c18Val {
	switch r.Intn(5) {
	case 0:
		return c18Val{kind: 4, lit: c18StressArrays[r.Intn(len(c18StressArrays))]}
	case 1:
		return c18Val{kind: 5, lit: c18StressObjects[r.Intn(len(c18StressObjects))]}
	case 2:
		d := 1 + r.Intn(60)
		if r.Bool() {
			return c18Val{kind: 4, lit: strings.Repeat("[", d) + strings.Repeat("]", d)}
		}
		return c18Val{kind: 5, lit: strings.Repeat(`{"k":`, d) + "0" + strings.Repeat("}", d)}
	case 3:
		return c18StressNum(r)
	default:
		return c18Other(r)
	}
}

func c18StressObj(r *Rng, header bool) c18Obj {
	var o c18Obj
	names := c18Registered[:9]
	if !header {
		names = c18Registered[9:]
	}
	for k := 1 + r.Intn(4); k > 0; k-- {
		n := names[r.Intn(len(names))]
		if r.Intn(6) == 0 {
			n = c18Registered[r.Intn(len(c18Registered))]
		}
		var v c18Val
		switch {
		case (n == "exp" || n == "nbf" || n == "iat") && r.Intn(3) > 0:
			v = c18StressNum(r)
		case r.Intn(4) == 0:
			v = c18StressOther(r)
		default:
			v = c18StressStr(r)
		}
		kv := c18StressKey(r, n)
		kv.v = v
		o = append(o, kv)
	}
	for k := r.Intn(3); k > 0; k-- {
		kv := c18StressKey(r, c18Unknown[r.Intn(len(c18Unknown))])
		kv.v = c18StressOther(r)
		o = append(o, kv)
	}
	return o
}

// texts that are not JSON objects although they come close: every one must be rejected as header and as payload
var c18NotJSON = []string{
	// string literals
	`{"a":"\u12"}`, `{"a":"\u12G4"}`, `{"a":"\U0041"}`, `{"a":"\'"}`, `{"a":"\a"}`, `{"a":"\0"}`, `{"a":"\v"}`, `{"a":"\ "}`, "{\"a\":\"x\ny\"}", "{\"a\":\"x\ty\"}", "{\"a\":\"\x00\"}", "{\"a\":\"\x1f\"}",
	"{\"a\":\"\r\"}", `{"a":"abc}`, `{"a":"\"}`, `{"a":"\ud800\u"}`, `{"a":"\ud800\udc0"}`, `{"a":'x'}`, `{"a\":1}`, `{'a':"x"}`, `{"a":"x""}`, `{"a":"\u"}`, `{"a":"\u+123"}`, `{"a":"\u 123"}`, `{"\u12":1}`, "{\"\n\":1}",
	// numbers
	`{"a":1.}`, `{"a":1.e5}`, `{"a":1e}`, `{"a":1e+}`, `{"a":1E-}`, `{"a":-}`, `{"a":--1}`, `{"a":0x10}`, `{"a":1_000}`, `{"a":Infinity}`, `{"a":-Infinity}`, `{"a":NaN}`, `{"a":1e5.5}`, `{"a":00}`, `{"a":-01}`,
	`{"a":1.2.3}`, `{"a":0e}`, `{"a":1,5}`, `{"a":1 5}`, `{"a":١}`, `{"a":1f}`, `{"a":1d}`, `{"a":0.}`, `{"a":-.5}`, `{"a":+0}`, `{"a":1e1e1}`, `{"a":0b1}`, `{"a":1n}`, `{"a":012}`, `{"exp":1700000000.}`, `{"exp":017}`,
	// literals
	`{"a":nul}`, `{"a":nulll}`, `{"a":True}`, `{"a":NULL}`, `{"a":tru}`, `{"a":falsee}`, `{"a":undefined}`, `{"a":None}`, `{"a":FALSE}`, `{"a":n}`, `{"a":truefalse}`, `{"a":nil}`,
	// structure
	`{,}`, `{"a"}`, `{"a":}`, `{:1}`, `{"a":1 "b":2}`, `{"a":1,,"b":2}`, `{"a":[1,]}`, `{"a":[,1]}`, `{"a":[1 2]}`, `{"a":{]}`, `{"a":[}`, `{"a":[1}`, `{1:2}`, `{null:1}`, `{true:1}`, `{"a":1}}`, `[{"a":1}]`, `{{}}`,
	`{"a":{"b"}}`, `{"a"::1}`, `{"a":1;"b":2}`, `{"a"=1}`, `{"a":[1,2}]`, `{"a":(1)}`, `{"a":1,"b"}`, `{"a":[]]}`, `{"a":{}}}`, `{[]:1}`, `{"a":1,}`, `{"a":[1,,2]}`, `{"a":{,}}`, `{"a":[:]}`, `"{}"`, `{}{}`, `{} {}`, `{}[]`, `{},`,
	// white space that JSON does not know, comments, byte order marks
	"\v{}", "\f{}", "{}\v", "{}\f", "\x00{}", "\xa0{}", "\xc2\xa0{}", "\xe2\x80\xa8{}", "{\v}", "{\"a\"\f:1}", "{\"a\":\v1}", "\xef\xbb\xbf{\"a\":1}", "{}\xef\xbb\xbf", "\xff\xfe{\x00}\x00", "{\x00}",
	`{/*c*/}`, `{}//c`, `{"a":1 /*c*/}`, "{\"a\":1 //c\n}", `#{}`, `{}#`, "\x1f{}", "\x1c{}", "\x85{}", "{\"a\":1\x0b}",
	// not objects
	`"x"`, `0`, `-1`, `1e3`, `true`, `false`, `[1,2]`, `[[]]`, `nul`, `nullx`, `null null`, `nulL`, ` `, "\n", `""`,
}

// ---------- tokens ----------
// c18Seg encodes raw in convention e (index into goEncs), optionally wrapped / with non-zero trailing bits.
func c18Seg(r *Rng, raw []byte, e int, fancy bool) []byte {
	s := []byte(goEncs[e].EncodeToString(raw))
	if fancy && len(s) > 0 && r.Intn(12) == 0 && len(raw)%3 != 0 && e < 2 {
		// the unused low bits of the last character are not checked by Go's decoders
		const std = "ABCDEFGHIJKLMNOPQRSTUVWXYZabcdefghijklmnopqrstuvwxyz0123456789"
		if i := strings.IndexByte(std, s[len(s)-1]); i >= 0 && i%4 == 0 && i+1 < len(std) {
			s[len(s)-1] = std[i+1]
		}
	}
	if fancy && r.Intn(10) == 0 {
		s = wrapText(s, []int{1, 4, 64, 76, 3}[r.Intn(5)], r.Bool())
	}
	return s
}

func c18Join(parts ...[]byte) []byte { return bytes.Join(parts, []byte(".")) }

type c18Tok struct {
	hdr, pl c18Obj
	sig     []byte
	tok     []byte
}

func c18Build(r *Rng, hdr, pl c18Obj, sig []byte, fancy bool) c18Tok {
	e := func() int {
		if !fancy {
			return 1
		}
		return r.Intn(4)
	}
	ws := fancy && r.Intn(5) == 0
	t := c18Join(c18Seg(r, hdr.text(r, ws), e(), fancy), c18Seg(r, pl.text(r, ws), e(), fancy), c18Seg(r, sig, e(), fancy))
	if fancy {
		switch r.Intn(14) {
		case 0:
			t = append(t, '\n')
		case 1:
			t = append(t, '\r', '\n')
		case 2:
			t = append([]byte{'\n'}, t...)
		}
	}
	return c18Tok{hdr, pl, sig, t}
}

func c18SigLen(r *Rng) int {
	switch r.Intn(8) {
	case 0:
		return 0
	case 1:
		return 1 + r.Intn(3)
	case 2:
		return 32
	case 3:
		return 64
	case 4:
		return 256
	case 5:
		return 512
	case 6:
		return r.Intn(513)
	default:
		return r.Intn(100)
	}
}

// ---------- oracle: what the library calls returned ----------
func c18JVal(v any) Sx {
	switch x := v.(type) {
	case string:
		return SL{I(0), S(x)}
	case float64:
		if x == 0 {
			return SL{I(1), I(0), I(0)}
		}
		fr, ex := math.Frexp(x)
		return SL{I(1), sInt(int64(fr * (1 << 53))), I(ex - 53)}
	case bool:
		return SL{I(2), Bool(x)}
	case nil:
		return SL{I(3)}
	case []any:
		return SL{I(4)}
	default:
		return SL{I(5)}
	}
}

func c18JRes(decoded []byte) Sx {
	var m map[string]any
	if err := json.Unmarshal(decoded, &m); err != nil {
		return SL{I(2)}
	}
	if m == nil {
		return SL{I(1)}
	}
	keys := make([]string, 0, len(m))
	for k := range m {
		keys = append(keys, k)
	}
	sort.Strings(keys)
	l := SL{}
	for _, k := range keys {
		l = append(l, SL{S(k), c18JVal(m[k])})
	}
	return SL{I(0), l}
}

func c18Oracle(tok []byte) Sx {
	o := SL{}
	parts := bytes.Split(tok, []byte("."))
	seen := map[string]bool{}
	for i := 0; i < 2 && i < len(parts); i++ {
		dec, err := util.DecodeAnyBase64(parts[i])
		if err != nil || seen[string(dec)] {
			continue
		}
		seen[string(dec)] = true
		o = append(o, SL{SB(dec), c18JRes(dec)})
	}
	return o
}

// ---------- one token, all ops ----------
func c18Emit(c *Ctx, tag string, kind int, t c18Tok) {
	tok := t.tok
	ast := SL{I(kind), t.hdr.sx(), t.pl.sx(), SB(t.sig)}
	in := SL{SB(tok), c18Oracle(tok), ast}
	c.Emit("isjwt:"+tag, in, guard(func() Sx { return ObsOk(Bool(file.IsJWT("", tok, int64(len(tok))))) }))
	c.Emit("parse:"+tag, in, guard(func() Sx {
		j, err := file.ParseJWT(tok)
		if err != nil {
			return ObsErr()
		}
		return ObsOk(SB(j.Signature))
	}))
	if orc := c18Oracle(tok).(SL); len(orc) > 0 {
		// what the library answers for each decoded segment, computed again (the reference reader of the
		// model is compared with it; the spec checker tests the first-byte hypothesis of C18_dispatch on it)
		c.Emit("json:"+tag, in, guard(func() Sx {
			l := SL{}
			for _, e := range orc {
				l = append(l, c18JRes([]byte(e.(SL)[0].(SB))))
			}
			return l
		}))
	}
	reps := 3
	if kind == 0 {
		reps = 4
	}
	seen := map[string]bool{}
	outs := SL{}
	for i := 0; i < reps; i++ {
		o := guard(func() Sx {
			inf, err := file.JWTData(file.Info{}, tok)
			if err != nil {
				return ObsErr()
			}
			return ObsOk(InfoSx(inf))
		})
		if s := o.String(); !seen[s] {
			seen[s] = true
			outs = append(outs, o)
		}
	}
	c.Emit("describe:"+tag, in, outs)
	if kind == 0 {
		dir := filepath.Join(c.Tmp, "c18")
		os.MkdirAll(dir, 0o755)
		p := filepath.Join(dir, "token.jwt")
		if os.WriteFile(p, tok, 0o644) == nil {
			o, _ := inspectObs(p)
			c.Emit("inspect:"+tag, in, o)
			os.Remove(p)
		}
	}
}

func c18Raw(tok string) c18Tok { return c18Tok{tok: []byte(tok)} }

func c18Plain(r *Rng, k string, v c18Val) c18KV {
	kl, _ := json.Marshal(k)
	return c18KV{k: k, klit: string(kl), v: v}
}
func c18PS(s string) c18Val {
	b, _ := json.Marshal(s)
	return c18Val{kind: 0, s: s, lit: string(b)}
}
func c18PN(m int64, e int, lit string) c18Val { return c18Val{kind: 1, mant: m, exp: e, lit: lit} }

func genC18(c *Ctx) {
	// SplitMix64 states of neighbouring seeds are shifted copies of each other (seed s at draw k+2
	// is seed s+2 at draw k); re-seeding from one mixed output gives unrelated streams per seed
	r := NewRng(c.R.U64())
	// a local zone that is not UTC, so that formatting a date in local time would show
	time.Local = time.FixedZone("verif", 5*3600+1800)
	kv := func(k string, v c18Val) c18KV { return c18Plain(r, k, v) }
	hs256 := c18Obj{kv("alg", c18PS("HS256"))}

	// ---------------- corpus: past failures and the witnesses of the findings ----------------
	// F22: JSON null as header and payload, empty signature
	c18Emit(c, "corpus-F22", 1, c18Raw("bnVsbA.bnVsbA."))
	c18Emit(c, "corpus-F22", 1, c18Raw("bnVsbA.e30."))
	c18Emit(c, "corpus-F22", 1, c18Raw("e30.bnVsbA."))
	c18Emit(c, "corpus-F22", 1, c18Raw("IG51bGwK.e30.AA")) // " null\n"
	// F21: numeric dates
	c18Emit(c, "corpus-F21", 0, c18Build(r, hs256, c18Obj{kv("exp", c18PN(1700000000, 0, "1700000000"))}, []byte("sig"), false))
	c18Emit(c, "corpus-F21", 0, c18Build(r, hs256, c18Obj{kv("nbf", c18PN(17000000005, -1, "1700000000.5")), kv("iat", c18PN(17, 8, "1.7e9"))}, nil, false))
	c18Emit(c, "corpus-F21", 0, c18Build(r, hs256, c18Obj{kv("exp", c18PN(-5, -1, "-0.5")), kv("iat", c18PN(0, 0, "-0"))}, nil, false))
	c18Emit(c, "corpus-F21", 0, c18Build(r, hs256, c18Obj{kv("exp", c18PN(253402300799, 0, "253402300799")), kv("nbf", c18PN(-62135596800, 0, "-62135596800"))}, nil, false))
	c18Emit(c, "corpus-F21", 0, c18Build(r, hs256, c18Obj{kv("exp", c18PN(253402300800, 0, "253402300800")), kv("nbf", c18PN(-62135596801, 0, "-62135596801")), kv("iat", c18PN(1, 30, "1e30"))}, nil, false))
	// empty string values
	c18Emit(c, "corpus-empty", 0, c18Build(r, c18Obj{kv("typ", c18PS(""))}, c18Obj{kv("sub", c18PS("")), kv("iss", c18PS("x"))}, nil, false))
	c18Emit(c, "corpus-empty", 0, c18Build(r, c18Obj{kv("alg", c18PS(""))}, c18Obj{kv("exp", c18PS(""))}, nil, false))
	// F13: several registered fields in one map
	c18Emit(c, "corpus-F13", 0, c18Build(r, c18Obj{kv("alg", c18PS("RS256")), kv("typ", c18PS("JWT")), kv("kid", c18PS("k1")), kv("x5t", c18PS("t"))},
		c18Obj{kv("iss", c18PS("i")), kv("sub", c18PS("s")), kv("aud", c18PS("a")), kv("jti", c18PS("j")), kv("exp", c18PS("1700000000")), kv("nbf", c18PS("0"))}, []byte{1, 2, 3}, false))
	// a token that is also one ASN.1 TLV ("ey" = tag 0x65, length 0x79): 123 bytes in total
	for k := 0; k < 200; k++ {
		t := c18Build(r, c18Obj{kv("alg", c18PS("HS256")), kv("typ", c18PS("JWT"))}, c18Obj{kv("sub", c18PS(strings.Repeat("x", k)))}, []byte{1, 1, 1, 1, 1}, false)
		if len(t.tok) == 123 {
			c18Emit(c, "corpus-asn1", 0, t)
			break
		}
	}
	for k := 0; k < 200; k++ {
		t := c18Build(r, hs256, c18Obj{kv("sub", c18PS(strings.Repeat("y", k)))}, []byte{9}, false)
		if len(t.tok) == 122 {
			t.tok = append(t.tok, '\n')
			c18Emit(c, "corpus-asn1", 0, t)
			break
		}
	}
	// all algorithms, unknown ones, alg of the wrong type / in the wrong place
	for _, a := range append(append([]string{}, c18Algs...), c18OtherAlgs...) {
		c18Emit(c, "corpus-alg", 0, c18Build(r, c18Obj{kv("alg", c18PS(a)), kv("typ", c18PS("JWT"))}, c18Obj{}, []byte{0xfb, 0xff}, false))
	}
	c18Emit(c, "corpus-alg", 0, c18Build(r, c18Obj{kv("alg", c18PN(5, 0, "5"))}, c18Obj{kv("alg", c18PS("ES512"))}, nil, false))
	c18Emit(c, "corpus-alg", 0, c18Build(r, c18Obj{kv("alg", c18Val{kind: 3, lit: "null"}), kv("iss", c18PS("hdr-issuer"))}, c18Obj{kv("typ", c18PS("at+jwt"))}, nil, false))
	// dates given as strings, values of the wrong type
	for _, s := range []string{"1700000000", "tomorrow", "", "+5", "-1", "9223372036854775808", "253402300800", " 1", "1e3"} {
		c18Emit(c, "corpus-datestr", 0, c18Build(r, hs256, c18Obj{kv("exp", c18PS(s))}, nil, false))
	}
	c18Emit(c, "corpus-types", 0, c18Build(r, hs256, c18Obj{kv("exp", c18Val{kind: 3, lit: "null"}), kv("nbf", c18Val{kind: 4, lit: "[1700000000]"}), kv("iat", c18Val{kind: 2, b: true, lit: "true"}),
		kv("sub", c18Val{kind: 5, lit: `{"a":"b"}`}), kv("aud", c18Val{kind: 4, lit: `["a","b"]`}), kv("iss", c18PN(7, 0, "7"))}, nil, false))
	// duplicate members: the last one counts
	c18Emit(c, "corpus-dup", 0, c18Build(r, hs256, c18Obj{kv("sub", c18PS("a")), kv("sub", c18PS("b"))}, nil, false))
	c18Emit(c, "corpus-dup", 0, c18Build(r, hs256, c18Obj{kv("sub", c18PS("a")), kv("sub", c18PN(5, 0, "5"))}, nil, false))
	c18Emit(c, "corpus-dup", 0, c18Build(r, hs256, c18Obj{kv("exp", c18PN(5, 0, "5")), kv("exp", c18PS("x")), kv("exp", c18PN(6, 0, "6"))}, nil, false))
	// minimal token, line ends, padded / standard alphabets
	c18Emit(c, "corpus-min", 0, c18Tok{c18Obj{}, c18Obj{}, nil, []byte("e30.e30.")})
	c18Emit(c, "corpus-min", 0, c18Tok{c18Obj{}, c18Obj{}, nil, []byte("e30.e30.\n")})
	c18Emit(c, "corpus-min", 0, c18Tok{c18Obj{}, c18Obj{}, nil, []byte("\r\ne30=.e\n30=.\r\n")})
	c18Emit(c, "corpus-min", 0, c18Tok{c18Obj{}, c18Obj{}, []byte{0xfb, 0xff, 0xfe}, []byte("e30.e30=.+//+")})
	c18Emit(c, "corpus-min", 0, c18Tok{c18Obj{}, c18Obj{}, []byte{0xfb, 0xff, 0xfe}, []byte("e30.e30.-__-")})
	c18Emit(c, "corpus-min", 0, c18Tok{c18Obj{}, c18Obj{}, []byte{0xfb}, []byte("e31.e30.-_")})
	for _, s := range []string{"", ".", "..", "...", "e30.e30", "e30.e30.e30.e30", "e30.e30..", ".e30.e30.", " e30.e30.", "e30.e30. ", "e30.e30.\t", "e30 .e30.",
		"W10.e30.", "e30.W10.", "MQ.e30.", "e30.InMi.", "dHJ1ZQ.e30.", "e30.e30.A", "e30.e30.-+", "e3=0.e30.", "e30==.e30.", "e30.e30.*", "e30.e30.\x80",
		"eyJhIjo.e30.", "e30ge30.e30.", "e30.eyJhIjoxLH0.", "e30.e30.AA=", "e30.e30.A===", "e30.e30.\x00", "e30/e30/", "e30,e30,"} {
		c18Emit(c, "corpus-near", 1, c18Raw(s))
	}

	// ---------------- structured, mostly valid ----------------
	n := 900
	if c.Thorough() {
		n = 25000
	}
	for i := 0; i < n; i++ {
		sig := r.Bytes(c18SigLen(r))
		if !c.Thorough() && len(sig) > 200 && i%4 != 0 {
			sig = sig[:len(sig)%97]
		}
		c18Emit(c, "wf", 0, c18Build(r, c18RandObj(r, true), c18RandObj(r, false), sig, true))
	}
	if c.Thorough() { // every subset of the nine header parameters, natural values
		for mask := 0; mask < 512; mask++ {
			var h c18Obj
			for b := 0; b < 9; b++ {
				if mask&(1<<b) != 0 {
					h = append(h, c18KVOf(r, c18Registered[b], c18ValueFor(r, c18Registered[b])))
				}
			}
			c18Emit(c, "wf-subsets", 0, c18Build(r, h, c18RandObj(r, false), r.Bytes(r.Intn(40)), true))
		}
	}
	// signature lengths 0..512, all four conventions
	step := 37
	if c.Thorough() {
		step = 1
	}
	for l := 0; l <= 512; l += step {
		for e := 0; e < 4; e++ {
			sig := r.Bytes(l)
			t := c18Join([]byte("eyJhbGciOiJub25lIn0"), []byte("e30"), []byte(goEncs[e].EncodeToString(sig)))
			c18Emit(c, "wf-siglen", 0, c18Tok{c18Obj{kv("alg", c18PS("none"))}, c18Obj{}, sig, t})
		}
	}

	// ---------------- near misses: must not be recognised ----------------
	nn := 250
	if c.Thorough() {
		nn = 8000
	}
	nonObj := []string{"[]", `["alg"]`, "null", " null ", "1", "1700000000", `"{}"`, "true", "false", `"alg"`, "-0.5", "[{}]"}
	badJSON := []string{`{"a":`, `{} x`, `{'a':1}`, `{a:1}`, `{"a":1,}`, ``, `{"a":1}{"b":2}`, `{"a" 1}`, `{"a":01}`, "\xef\xbb\xbf{}", `{"a":"\x"}`, "{", "}", `{"a":.5}`, `{"a":+1}`, `{"a":NaN}`, "{}\x00"}
	for i := 0; i < nn; i++ {
		base := c18Build(r, c18RandObj(r, true), c18RandObj(r, false), r.Bytes(r.Intn(40)), false)
		parts := bytes.Split(base.tok, []byte("."))
		h, p, g := parts[0], parts[1], parts[2]
		var tok []byte
		tag := ""
		switch i % 9 {
		case 0:
			tag = "segments"
			tok = [][]byte{c18Join(h, p), c18Join(h, p, g, g), append(append([]byte{}, base.tok...), '.'), append([]byte{'.'}, base.tok...), h, c18Join(h, p, []byte{}, g)}[r.Intn(6)]
		case 1:
			tag = "hdr-not-object"
			tok = c18Join(c18Seg(r, []byte(nonObj[r.Intn(len(nonObj))]), r.Intn(4), false), p, g)
		case 2:
			tag = "payload-not-object"
			tok = c18Join(h, c18Seg(r, []byte(nonObj[r.Intn(len(nonObj))]), r.Intn(4), false), g)
		case 3:
			tag = "bad-json"
			bad := c18Seg(r, []byte(badJSON[r.Intn(len(badJSON))]), r.Intn(4), false)
			if r.Bool() {
				tok = c18Join(bad, p, g)
			} else {
				tok = c18Join(h, bad, g)
			}
		case 4:
			tag = "bad-char"
			ps := [][]byte{append([]byte{}, h...), append([]byte{}, p...), append([]byte{}, g...)}
			k := r.Intn(3)
			pos := r.Intn(len(ps[k]) + 1)
			bad := []byte{' ', '*', 0x80, '%', '~', '\t', 0, ',', ':', '"', 0xff, '\v', '\f'}[r.Intn(13)]
			ps[k] = append(append(append([]byte{}, ps[k][:pos]...), bad), ps[k][pos:]...)
			tok = c18Join(ps...)
		case 5:
			tag = "bad-length"
			ps := [][]byte{append([]byte{}, h...), append([]byte{}, p...), append([]byte{}, g...)}
			k := r.Intn(3)
			for len(ps[k])%4 != 1 {
				ps[k] = append(ps[k], 'A')
			}
			tok = c18Join(ps...)
		case 6:
			tag = "bad-padding"
			ps := [][]byte{append([]byte{}, h...), append([]byte{}, p...), append([]byte{}, g...)}
			k := r.Intn(3)
			switch len(ps[k]) % 4 {
			case 0, 2:
				ps[k] = append(ps[k], '=')
			default:
				ps[k] = append(ps[k], '=', '=')
			}
			if r.Intn(3) == 0 {
				// surplus padding that brings the length back to a multiple of four ("3q2-====", "3g======"):
				// a decoder that trims '=' before decoding unpadded would accept it
				ps[k] = bytes.TrimRight(ps[k], "=")
				for n := 0; n < 4*(1+r.Intn(2)); n++ {
					ps[k] = append(ps[k], '=')
				}
				for len(ps[k])%4 != 0 {
					ps[k] = append(ps[k], '=')
				}
				if bytes.Count(ps[k], []byte("=")) <= 2 {
					ps[k] = append(ps[k], '=', '=', '=', '=')
				}
			}
			tok = c18Join(ps...)
		case 7:
			tag = "mixed-alphabet"
			tok = c18Join(h, p, []byte([]string{"-+", "_/AA", "ab+-", "+_", "A-A/"}[r.Intn(5)]))
		default:
			tag = "space-around"
			w := []string{" ", "\t", "  ", "\v", "\f", " ", " \n"}[r.Intn(7)]
			if r.Bool() {
				tok = append([]byte(w), base.tok...)
			} else {
				tok = append(append([]byte{}, base.tok...), w...)
			}
		}
		c18Emit(c, "near-"+tag, 1, c18Tok{tok: tok})
	}

	// surplus padding, deterministic: every segment position x every data length residue
	for _, sig := range []string{"3q2-====", "3g======", "AAA=====", "AAAA====", "3q2-========"} {
		c18Emit(c, "near-surplus-padding", 1, c18Tok{tok: c18Join([]byte("eyJhbGciOiJub25lIn0"), []byte("e30"), []byte(sig))})
		c18Emit(c, "near-surplus-padding", 1, c18Tok{tok: c18Join([]byte("eyJhbGciOiJub25lIn0"), []byte("e30===="), []byte("AA"))})
		c18Emit(c, "near-surplus-padding", 1, c18Tok{tok: c18Join([]byte("eyJhbGciOiJub25lIn0====="), []byte("e30"), []byte("AA"))})
	}
	// a JSON object followed by anything that is not white space is not a JSON object: every suffix a
	// streaming decoder, a "more data?" probe or a lenient scanner could overlook, in header and payload
	for _, obj := range []string{`{"alg":"HS256","typ":"JWT"}`, `{}`, `{"sub":"x","exp":1700000000}`, "{\"alg\":\"none\"}\n"} {
		for _, suf := range []string{"}", "]", " }", "\n]", "}}", "]]", ",", ":", "x", "{}", "[]", "null", "0", `""`, " \t\r\n}", "\x00", "/", "//c", "/**/", ";", "\n}\n", "=", ".", "\xef\xbb\xbf", "\u2028"} {
			for k := 0; k < 2; k++ {
				bad := c18Seg(r, []byte(obj+suf), r.Intn(4), false)
				good := c18Seg(r, []byte(`{"alg":"none"}`), r.Intn(4), false)
				var tok []byte
				if k == 0 {
					tok = c18Join(bad, good, []byte("AA"))
				} else {
					tok = c18Join(good, bad, []byte("AA"))
				}
				c18Emit(c, "near-trailing-data", 1, c18Tok{tok: tok})
			}
		}
	}

	// ---------------- the decoding rules of encoding/json ----------------
	// escapes, surrogates, invalid UTF-8, spellings of numbers, nesting, names spelled with escapes
	ns := 330
	if c.Thorough() {
		ns = 12000
	}
	for i := 0; i < ns; i++ {
		c18Emit(c, "wf-json", 0, c18Build(r, c18StressObj(r, true), c18StressObj(r, false), r.Bytes(r.Intn(12)), true))
	}
	for _, p := range c18Pieces { // every piece once on its own, as a claim and as a date claim
		v := c18Val{kind: 0, s: p.want, lit: `"` + p.lit + `"`}
		c18Emit(c, "wf-json-piece", 0, c18Build(r, hs256, c18Obj{kv("sub", v), kv("exp", v)}, nil, false))
	}
	for _, sp := range c18NumSpellings {
		m, _ := new(big.Int).SetString(sp.mant, 10)
		v := c18Val{kind: 1, exp: sp.exp, lit: sp.lit, bigm: m}
		if m.IsInt64() {
			v = c18Val{kind: 1, mant: m.Int64(), exp: sp.exp, lit: sp.lit}
		}
		c18Emit(c, "wf-json-number", 0, c18Build(r, hs256, c18Obj{kv("iat", v), kv("jti", v)}, nil, false))
	}
	// nesting: 10000 levels are read, 10001 are an error of the library (not judged from the AST)
	deep := func(d int) c18Val { return c18Val{kind: 4, lit: strings.Repeat("[", d) + strings.Repeat("]", d)} }
	c18Emit(c, "wf-json-depth", 0, c18Build(r, hs256, c18Obj{kv("aud", deep(9999)), kv("sub", c18PS("deep"))}, nil, false))
	c18Emit(c, "mal-json-depth", 2, c18Tok{tok: c18Build(r, hs256, c18Obj{kv("aud", deep(10000))}, nil, false).tok})
	for i, bad := range c18NotJSON {
		for k := 0; k < 2; k++ {
			if !c.Thorough() && (i+k)%2 == 1 && r.Intn(3) > 0 {
				continue
			}
			b := c18Seg(r, []byte(bad), r.Intn(4), false)
			good := c18Seg(r, []byte(`{"alg":"none"}`), r.Intn(4), false)
			tok := c18Join(b, good, []byte("AA"))
			if k == 1 {
				tok = c18Join(good, b, []byte("AA"))
			}
			c18Emit(c, "near-not-json", 1, c18Tok{tok: tok})
		}
	}

	// the JSON text itself mutated before it is encoded (not judged from the AST: the reference reader of
	// the model and the library must agree on whether it still is an object, and on its members)
	nj := 250
	if c.Thorough() {
		nj = 10000
	}
	jalpha := []byte("{}[],:\"\\ue0123456789.-+ntfalsr \n\t\x00\xff\x80/")
	for i := 0; i < nj; i++ {
		txt := c18StressObj(r, r.Bool()).text(r, r.Bool())
		for k := 1 + r.Intn(3); k > 0 && len(txt) > 0; k-- {
			pos := r.Intn(len(txt))
			switch r.Intn(4) {
			case 0:
				txt = append(txt[:pos:pos], txt[pos+1:]...)
			case 1:
				txt = append(append(append([]byte{}, txt[:pos]...), r.Pick(jalpha)), txt[pos:]...)
			case 2:
				txt = append([]byte{}, txt...)
				txt[pos] = r.Pick(jalpha)
			default: // swap two neighbours
				txt = append([]byte{}, txt...)
				if pos+1 < len(txt) {
					txt[pos], txt[pos+1] = txt[pos+1], txt[pos]
				}
			}
		}
		good := c18Seg(r, []byte(`{"alg":"none"}`), r.Intn(4), false)
		bad := c18Seg(r, txt, r.Intn(4), false)
		tok := c18Join(bad, good, []byte("AA"))
		if r.Bool() {
			tok = c18Join(good, bad, []byte("AA"))
		}
		c18Emit(c, "mal-json-mutated", 2, c18Tok{tok: tok})
	}

	// ---------------- malformed stream: not judged from the AST ----------------
	nm := 500
	if c.Thorough() {
		nm = 20000
	}
	alpha := []byte("ABCDEFGHIJKLMNOPQRSTUVWXYZabcdefghijklmnopqrstuvwxyz0123456789-_+/=.\n")
	for i := 0; i < nm; i++ {
		base := c18Build(r, c18RandObj(r, true), c18RandObj(r, false), r.Bytes(r.Intn(20)), r.Bool())
		d := append([]byte{}, base.tok...)
		tag := "mutated"
		switch r.Intn(8) {
		case 0:
			d[r.Intn(len(d))] ^= byte(1 << r.Intn(8))
		case 1:
			d = d[:r.Intn(len(d))]
		case 2:
			pos := r.Intn(len(d) + 1)
			d = append(append(append([]byte{}, d[:pos]...), r.Pick(alpha)), d[pos:]...)
		case 3:
			pos := r.Intn(len(d))
			d = append(append([]byte{}, d[:pos]...), d[pos+1:]...)
		case 4:
			d[r.Intn(len(d))] = r.Pick(alpha)
		case 5:
			tag = "random-text"
			d = make([]byte, r.Intn(40))
			for j := range d {
				d[j] = r.Pick(alpha)
			}
		case 6:
			tag = "random-bytes"
			d = r.Bytes(r.Intn(30))
		default: // a number outside float64's range: a JSON object by syntax, an error for the library
			tag = "number-range"
			d = c18Join(c18Seg(r, []byte(`{"alg":"none"}`), r.Intn(4), false), c18Seg(r, []byte([]string{`{"exp":1e999}`, `{"exp":-1e400}`, `{"x":[1e309]}`}[r.Intn(3)]), r.Intn(4), false), []byte("AA"))
		}
		c18Emit(c, "mal-"+tag, 2, c18Tok{tok: d})
	}
	os.RemoveAll(filepath.Join(c.Tmp, "c18"))
}
