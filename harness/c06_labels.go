package main

// C06, PEM bundles: blocks of EVERY label class in EVERY position.
//
// The count rule of the property (n non-PGP blocks -> n children in input order, n = 1 -> the
// block itself, each child = the block inspected alone) does not depend on what a block holds:
// a block the tool does not describe still is an entry ("unknown PEM data").  A table row or a
// parsePEMBlock case added for one more label must not change that, so the bundles generated
// here hold, besides certificates and keys, every label internal/file/pem.go knows, labels a
// maintainer might wire up next - with bodies such a parser would accept: a real PKCS#10
// request, a real CRL, a certs-only PKCS#7, DH/DSA parameters, an EncryptedPrivateKeyInfo,
// SSH2 keys -, unknown labels, labels differing in case or blanks, and PGP armor between them;
// under neutral file names and under names a new row might claim; also behind a leading blank
// or comment line (then the magic "-----BEGIN " does not match and the sniffers decide).

import (
	"crypto/ed25519"
	"crypto/x509"
	"crypto/x509/pkix"
	"encoding/asn1"
	"math/big"
	"time"
)

// DER by hand (tag, length, value)
func c06TLV(tag byte, parts ...[]byte) []byte {
	var v []byte
	for _, p := range parts {
		v = append(v, p...)
	}
	out := []byte{tag}
	switch n := len(v); {
	case n < 128:
		out = append(out, byte(n))
	case n < 256:
		out = append(out, 0x81, byte(n))
	default:
		out = append(out, 0x82, byte(n>>8), byte(n))
	}
	return append(out, v...)
}

func c06DERInt(b []byte) []byte {
	for len(b) > 1 && b[0] == 0 {
		b = b[1:]
	}
	if len(b) == 0 || b[0]&0x80 != 0 {
		b = append([]byte{0}, b...)
	}
	return c06TLV(0x02, b)
}

func c06OID(ids ...int) []byte {
	b, _ := asn1.Marshal(asn1.ObjectIdentifier(ids))
	return b
}

type c06Extra struct {
	csr, crl, caCert, pkcs7, dh, dsa, attrCert, encKey, ssh2pub []byte
}

// c06ExtraBodies builds the bodies deterministically (ed25519 from a fixed seed, fixed times; the random
// source handed to crypto/x509 is a private generator, never the case stream's)
func c06ExtraBodies() c06Extra {
	var x c06Extra
	seed := make([]byte, 32)
	for i := range seed {
		seed[i] = byte(0xC0 + i)
	}
	priv := ed25519.NewKeyFromSeed(seed)
	rnd := NewRng(0xC06C06)
	t0 := time.Unix(1700000000, 0).UTC()
	csr, err := x509.CreateCertificateRequest(rnd, &x509.CertificateRequest{
		Subject:  pkix.Name{Country: []string{"US"}, Organization: []string{"Example"}, CommonName: "request.example.org"},
		DNSNames: []string{"request.example.org", "www.example.org"},
	}, priv)
	if err != nil {
		panic("c06: CreateCertificateRequest: " + err.Error())
	}
	x.csr = csr
	caT := &x509.Certificate{
		SerialNumber: big.NewInt(0xC06), Subject: pkix.Name{CommonName: "C06 test CA"},
		NotBefore: t0, NotAfter: t0.Add(10 * 365 * 24 * time.Hour),
		IsCA: true, BasicConstraintsValid: true, KeyUsage: x509.KeyUsageCertSign | x509.KeyUsageCRLSign,
		SubjectKeyId: []byte{1, 2, 3, 4},
	}
	caDER, err := x509.CreateCertificate(rnd, caT, caT, priv.Public(), priv)
	if err != nil {
		panic("c06: CreateCertificate: " + err.Error())
	}
	x.caCert = caDER
	ca, _ := x509.ParseCertificate(caDER)
	crl, err := x509.CreateRevocationList(rnd, &x509.RevocationList{
		Number: big.NewInt(7), ThisUpdate: t0, NextUpdate: t0.Add(30 * 24 * time.Hour),
		RevokedCertificateEntries: []x509.RevocationListEntry{{SerialNumber: big.NewInt(4711), RevocationTime: t0}},
	}, ca, priv)
	if err != nil {
		panic("c06: CreateRevocationList: " + err.Error())
	}
	x.crl = crl
	// PKCS#7 / CMS SignedData, certificates only (what `openssl crl2pkcs7 -nocrl -certfile` writes)
	signedData := c06TLV(0x30,
		c06DERInt([]byte{1}),
		c06TLV(0x31),
		c06TLV(0x30, c06OID(1, 2, 840, 113549, 1, 7, 1)),
		c06TLV(0xA0, caDER),
		c06TLV(0x31))
	x.pkcs7 = c06TLV(0x30, c06OID(1, 2, 840, 113549, 1, 7, 2), c06TLV(0xA0, signedData))
	// DHParameter ::= SEQUENCE { prime INTEGER, base INTEGER } (PKCS#3), RFC 3526 group 5 would do; any odd number serves
	p := make([]byte, 128)
	for i := range p {
		p[i] = byte(0x9D + 7*i)
	}
	p[0], p[127] = 0xFF, 0xFB
	q := append([]byte{0xE9}, p[1:20]...)
	x.dh = c06TLV(0x30, c06DERInt(p), c06DERInt([]byte{2}))
	x.dsa = c06TLV(0x30, c06DERInt(p), c06DERInt(q), c06DERInt(p[3:120]))
	// AttributeCertificate (RFC 5755) outline: SEQUENCE { acinfo SEQUENCE { version 1, ... }, sigAlg, BIT STRING }
	x.attrCert = c06TLV(0x30,
		c06TLV(0x30, c06DERInt([]byte{1}), c06TLV(0xA0, c06TLV(0x30, c06TLV(0xA4, c06TLV(0x30)))), c06DERInt([]byte{9})),
		c06TLV(0x30, c06OID(1, 3, 101, 112)),
		c06TLV(0x03, []byte{0}, seed))
	// EncryptedPrivateKeyInfo (PKCS#8) with PBES2 / PBKDF2 / AES-256-CBC parameters
	pbkdf2 := c06TLV(0x30, c06OID(1, 2, 840, 113549, 1, 5, 12), c06TLV(0x30, c06TLV(0x04, seed[:8]), c06DERInt([]byte{0x08, 0x00})))
	aes := c06TLV(0x30, c06OID(2, 16, 840, 1, 101, 3, 4, 1, 42), c06TLV(0x04, seed[:16]))
	x.encKey = c06TLV(0x30,
		c06TLV(0x30, c06OID(1, 2, 840, 113549, 1, 5, 13), c06TLV(0x30, pbkdf2, aes)),
		c06TLV(0x04, append(append([]byte{}, seed...), seed...)))
	// the SSH wire form of the public key (the body of an RFC 4716 "SSH2 PUBLIC KEY" file)
	ws := func(b []byte) []byte { return append([]byte{0, 0, 0, byte(len(b))}, b...) }
	x.ssh2pub = append(ws([]byte("ssh-ed25519")), ws(priv.Public().(ed25519.PublicKey))...)
	return x
}

type c06Class struct {
	blk   pemBlockT
	claim bool // a label a maintainer might wire up next (tried first in a bundle under every name)
}

// c06LabelClasses: one representative block per label class
func c06LabelClasses(pool []pemBlockT) []c06Class {
	x := c06ExtraBodies()
	var cs []c06Class
	first := func(typ string) (pemBlockT, bool) {
		for _, p := range pool {
			if p.typ == typ && len(p.hdr) == 0 && len(p.bytes) > 60 {
				return p, true
			}
		}
		return pemBlockT{}, false
	}
	// every label internal/file/pem.go describes today, with a body it parses (fixtures)
	for _, typ := range []string{"CERTIFICATE", "RSA PUBLIC KEY", "PUBLIC KEY", "PRIVATE KEY", "EC PRIVATE KEY", "EC PARAMETERS",
		"RSA PRIVATE KEY", "DSA PRIVATE KEY", "OPENSSH PRIVATE KEY"} {
		if b, ok := first(typ); ok {
			cs = append(cs, c06Class{blk: b})
		}
	}
	cert, _ := first("CERTIFICATE")
	// labels the tool does not describe today (or describes through another label's code)
	extra := []pemBlockT{
		{typ: "CERTIFICATE REQUEST", bytes: x.csr},
		{typ: "NEW CERTIFICATE REQUEST", bytes: x.csr},
		{typ: "X509 CRL", bytes: x.crl},
		{typ: "PKCS7", bytes: x.pkcs7},
		{typ: "CMS", bytes: x.pkcs7},
		{typ: "DH PARAMETERS", bytes: x.dh},
		{typ: "X9.42 DH PARAMETERS", bytes: x.dsa},
		{typ: "ATTRIBUTE CERTIFICATE", bytes: x.attrCert},
		{typ: "TRUSTED CERTIFICATE", bytes: cert.bytes},
		{typ: "X509 CERTIFICATE", bytes: x.caCert},
		{typ: "ENCRYPTED PRIVATE KEY", bytes: x.encKey},
		{typ: "SSH2 PUBLIC KEY", bytes: x.ssh2pub},
		{typ: "SSH2 ENCRYPTED PRIVATE KEY", bytes: x.encKey},
	}
	if b, ok := first("DSA PARAMETERS"); ok {
		extra = append(extra, b)
	} else {
		extra = append(extra, pemBlockT{typ: "DSA PARAMETERS", bytes: x.dsa})
	}
	for _, b := range extra {
		cs = append(cs, c06Class{blk: b, claim: true})
	}
	// unknown labels; labels that differ from a known one in case or blanks only (pem.go upper-cases, nothing trims)
	key, _ := first("PRIVATE KEY")
	for _, b := range []pemBlockT{
		{typ: "FOO", bytes: []byte{0, 1, 2, 3}},
		{typ: "", bytes: x.csr},
		{typ: "PGPX", bytes: []byte("not pgp")},
		{typ: "certificate", bytes: cert.bytes},
		{typ: "Certificate Request", bytes: x.csr},
		{typ: "certificate request", bytes: x.csr},
		{typ: "new certificate request", bytes: x.csr},
		{typ: "CERTIFICATE  REQUEST", bytes: x.csr},
		{typ: " CERTIFICATE REQUEST", bytes: x.csr},
		{typ: "CERTIFICATE REQUEST ", bytes: x.csr},
		{typ: "CERTIFICATE ", bytes: cert.bytes},
		{typ: " PRIVATE KEY", bytes: key.bytes},
		{typ: "x509 crl", bytes: x.crl},
		{typ: "CERTIFICATE REQUEST", bytes: x.csr[:len(x.csr)-3]}, // a request that does not parse
	} {
		cs = append(cs, c06Class{blk: b, claim: true})
	}
	return cs
}

var c06NeutralNames = []string{"bundle", "data.txt"}
var c06ClaimedNames = []string{"x.csr", "x.p10", "x.crl", "x.p7b", "x.pem", "x.crt", "x.key"}
var c06Leads = []string{"", "\n", "# comment\n"}

func genC06PEMLabels(c *Ctx, pool []pemBlockT, cert, key pemBlockT, pgp []byte) {
	classes := c06LabelClasses(pool)
	names := append(append([]string{}, c06NeutralNames...), c06ClaimedNames...)
	B := func(b pemBlockT) pemItem { return c06PEMBlockItem(b, false) }
	// the positions of a block b among certificates and keys: alone, first of two, first of three, middle,
	// last, repeated, and first with PGP armor right behind it
	layouts := func(b pemBlockT) [][]pemItem {
		return [][]pemItem{
			{B(b)},
			{B(b), B(key)},
			{B(b), B(key), B(cert)},
			{B(cert), B(b), B(key)},
			{B(key), B(cert), B(b)},
			{B(b), B(b)},
			{B(b), {kind: 2, text: pgp}, B(key)},
		}
	}
	posTag := []string{"alone", "first", "first", "middle", "last", "repeated", "first"}
	emit := func(tag, name, lead string, its []pemItem) {
		if lead != "" {
			its = append([]pemItem{{kind: 1, text: []byte(lead)}}, its...)
		}
		c06PEMCaseN(c, "labels-"+tag, name, c06PEMRender(its), its)
	}
	for ci, cl := range classes {
		for pi, its := range layouts(cl.blk) {
			if c.Thorough() {
				for _, name := range names {
					for _, lead := range c06Leads {
						emit(posTag[pi], name, lead, its)
					}
				}
				continue
			}
			// quick tier: every class in every position once, names and leading lines rotating ...
			emit(posTag[pi], names[(ci+pi)%len(names)], c06Leads[(ci+2*pi)%len(c06Leads)], its)
			// ... and what a new row would claim - the block first in a bundle - under every name, and behind a
			// leading blank / comment line
			if pi == 1 && cl.claim {
				for _, name := range names {
					emit("first", name, "", its)
				}
				emit("first", "bundle", "\n", its)
				emit("first", "x.pem", "# comment\n", its)
			}
		}
	}
}
