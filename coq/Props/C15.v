(* C15 — property theorems (placeholder until the model is built). *)
From WI Require Import Lib.Base Lib.Info Model.Dn Proofs.Dn.
Theorem C15_placeholder : True.
Proof. exact I. Qed.
Print Assumptions C15_placeholder.
